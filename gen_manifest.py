#!/usr/bin/env python3
"""Regenerates MANIFEST.json from plan.py (claimed checks) and the static not-applicable list."""
import json, os, sys
sys.path.insert(0, os.path.dirname(os.path.abspath(__file__)))
from plan import PLAN, LEVELS, NOT_APPLICABLE

checks = []
for p in sorted(PLAN):
    L = LEVELS[p]
    checks.append({
        "property_id": p,
        "quick_cmd": "./check %s --tier quick" % p,
        "thorough_cmd": "./check %s --tier thorough" % p,
        "evidence_file": "evidence/%s.json" % p,
        "replay_cmd_template": "./check %s --replay {path}" % p,
        "engine": "simkit",
        "level_claimed": {"category": L["level"], "text": L["text"], "design_ref": L.get("design_ref", "DESIGN.md §6 " + p)},
        "level_note": L["note"],
        "technique": L.get("technique", "deterministic simulation with fault injection: seeded scheduler over parked store calls of the real code, reference-model oracle"),
    })
m = {
    "version": 1,
    "setup_cmd": "./check --setup",
    "hooks": {
        "guard": "Go build tag `verif` (files pkg/cafs/simyield_verif.go vs pkg/cafs/simyield.go)",
        "enable": "checks build /verif/sim (module verifsim, go1.26.8, replace github.com/oneconcern/datamon => /repo) against /repo's current working tree with `-tags verif`: pkg/cafs then calls the harness at two in-memory yield points of its reader (cafs.SimYield) and its pin / cache / prefetch latches are a channel-based mutex that testing/synctest can see through. With the tag off simYield is an empty function and simLock is an alias of sync.Mutex. All other seams are existing interfaces (storage.Store, afero.Fs, std time under testing/synctest, ksuid.SetRand)",
        "baseline_off_cmd": "cd /repo && GOFLAGS=-mod=mod go test -json -vet=off -count=1 -timeout 25m ./...",
        "source_commits": ["a8f0092"],
        "add_only": False,
    },
    "engines": [{"name": "simkit", "path": "sim/", "serves_properties": sorted(PLAN),
                 "kind_free_text": "deterministic simulator: real datamon packages on goroutines inside a testing/synctest bubble; every storage.Store / afero call parks; a seeded tape picks which call lands next, its latency, and the fault (error, lost ack, crash before/after, torn write, stall, bit rot); replay files = recorded tapes; delta-debugging shrinker"}],
    "checks": checks,
    "not_applicable": NOT_APPLICABLE,
    "notes": "Driver: ./check <id> --tier quick|thorough [--seed N]; VERIF_SEED and VERIF_TIER are honoured. Exit 2 = harness/build trouble, never a violation. known_findings.json lists recorded genuine defects (status known) and repaired ones (status fixed).",
}
json.dump(m, open(os.path.join(os.path.dirname(os.path.abspath(__file__)), "MANIFEST.json"), "w"), indent=1)
print("MANIFEST.json: %d checks, %d not applicable" % (len(checks), len(NOT_APPLICABLE)))

package props

import (
	"bufio"
	"bytes"
	"fmt"
	"path/filepath"
	"sort"
	"strings"
	"time"

	context2 "github.com/oneconcern/datamon/pkg/context"
	"github.com/oneconcern/datamon/pkg/core"
	"github.com/oneconcern/datamon/pkg/model"

	"verifsim/refmodel"
	"verifsim/simkit"
)

func init() {
	Register(&Scenario{Prop: "C13", Name: "purge-faulty", Strict: false, Quick: 10, Thorough: 10, Run: func(rc *RunCtx) *simkit.Violation { return runPurge(rc, "C13", "faulty") }})
	// an index chunk of more than a thousand keys whose write fails once (before landing, or after it with the acknowledgement lost)
	Register(&Scenario{Prop: "C13", Name: "purge-large-chunk-write-error", Strict: false, Quick: 1, Thorough: 2, Run: func(rc *RunCtx) *simkit.Violation { return runPurge(rc, "C13", "faulty-large") }})
	Register(&Scenario{Prop: "C13", Name: "purge-crash-resume", Strict: false, Quick: 5, Thorough: 6, Run: func(rc *RunCtx) *simkit.Violation { return runPurge(rc, "C13", "crash-resume") }})
	Register(&Scenario{Prop: "C13", Name: "purge-late-uploads", Strict: false, Quick: 5, Thorough: 6, Run: func(rc *RunCtx) *simkit.Violation { return runPurge(rc, "C13", "fault-free") }})
	Register(&Scenario{Prop: "C13", Name: "known-dedup-onto-orphan", Strict: false, Quick: 1, Thorough: 1, Run: func(rc *RunCtx) *simkit.Violation { return runPurge(rc, "C13", "dedup-onto-orphan") }})
	Register(&Scenario{Prop: "C13", Name: "purge-scan-read-errors", Strict: false, Quick: 3, Thorough: 4, Run: func(rc *RunCtx) *simkit.Violation { return runPurge(rc, "C13", "scan-read-error") }})
	Register(&Scenario{Prop: "C14", Name: "purge-exact", Strict: false, Quick: 10, Thorough: 10, Run: func(rc *RunCtx) *simkit.Violation { return runPurge(rc, "C14", "fault-free") }})
	Register(&Scenario{Prop: "C14", Name: "purge-lock", Strict: true, Quick: 4, Thorough: 4, Run: runC14Lock})
}

// purgeCtx is one datamon context (its own metadata buckets) on the shared blob bucket.
type purgeCtx struct {
	name  string
	meta  *simkit.Backend
	vmeta *simkit.Backend
	repos map[string]*mRepo
}

type pWorld struct {
	prop string
	rc   *RunCtx
	d    *DM
	ctxs []*purgeCtx
	leaf uint32
	pool [][]byte
}

func (p *pWorld) stores(c *simkit.Client, pc *purgeCtx) context2.Stores {
	return context2.NewStores(c.Store(p.d.Wal), c.Store(p.d.RLog), p.d.wrap(c.Store(p.d.Blob)), p.d.wrap(c.Store(pc.meta)), c.Store(pc.vmeta))
}

// blobKeysOf lists every blob (roots and leaves) a tree needs.
func blobKeysOf(tr Tree, leaf uint32, into map[string]bool) {
	for _, c := range tr {
		root, leaves := refmodel.TreeKeys(c, leaf)
		into[refmodel.Hex(root)] = true
		for _, l := range leaves {
			into[refmodel.Hex(l)] = true
		}
	}
}

func (p *pWorld) drawTreeFromPool(t *simkit.Tape, salt string, fresh bool) Tree {
	tr := Tree{}
	n := t.Range(1, 4)
	for i := 0; i < n; i++ {
		var c []byte
		if fresh {
			c = append([]byte("fresh "+salt+" "), t.Bytes(t.Range(0, 2*int(p.leaf)))...)
		} else {
			c = p.pool[t.Choose(len(p.pool))]
		}
		tr[fmt.Sprintf("f%d-%s", i, salt)] = c
	}
	return tr
}

func (p *pWorld) uploadTo(c *simkit.Client, pc *purgeCtx, repo string, tr Tree) func() (interface{}, error) {
	src := memDisk()
	_ = src.MkdirAll(".", 0o755)
	_ = writeTree(src, tr)
	bd := model.NewBundleDescriptor(model.Message("purge world"))
	bd.LeafSize = p.leaf
	b := core.NewBundle(core.Repo(repo), core.ContextStores(p.stores(c, pc)), core.BundleDescriptor(bd), core.ConsumableStore(localStore(src)), core.Logger(nopLog), core.ConcurrentFileUploads(4))
	return func() (interface{}, error) { return b, core.Upload(bg, b) }
}

// checkDownloads verifies that every bundle of the model downloads to its original content.
func (p *pWorld) checkDownloads(obs *simkit.Client, what string, only func(*mBundle) bool) *simkit.Violation {
	for _, pc := range p.ctxs {
		for _, rn := range sortedKeys(pc.repos) {
			for _, mb := range pc.repos[rn].Bundles {
				if only != nil && !only(mb) {
					continue
				}
				dst := memDisk()
				b := core.NewBundle(core.Repo(rn), core.ContextStores(p.stores(obs, pc)), core.BundleID(mb.ID), core.ConsumableStore(localStore(dst)), core.Logger(nopLog), core.ConcurrentFileDownloads(3))
				tk, v := doOp(p.prop, p.rc.W, obs, "publish "+mb.ID, func() (interface{}, error) { return nil, core.Publish(bg, b) })
				if v != nil {
					return v
				}
				if tk.Err != nil {
					return Viol(p.prop, "purge-lost-data", what, mb.ID, "after purge, bundle %s of %s/%s (%s) cannot be downloaded: %v", tail4(mb.ID), pc.name, rn, what, tk.Err)
				}
				got, _ := readTree(dst)
				data, _ := splitMeta(got)
				if df := diffTrees(mb.Tree, data); df != "" {
					return Viol(p.prop, "purge-lost-data", what, mb.ID, "after purge, bundle %s of %s/%s (%s) downloads to something else: %s", tail4(mb.ID), pc.name, rn, what, df)
				}
			}
		}
	}
	return nil
}

func runPurge(rc *RunCtx, prop, variant string) *simkit.Violation {
	w := rc.W
	t := w.W
	d := newDM(rc)
	d.CRC = t.Bool(2, 3)
	p := &pWorld{prop: prop, rc: rc, d: d, leaf: 64}
	p.ctxs = []*purgeCtx{{name: "main", meta: d.Meta, vmeta: d.VMet, repos: map[string]*mRepo{}}}
	if t.Bool(1, 3) {
		m2, v2 := w.Bucket("meta2"), w.Bucket("vmeta2")
		m2.LineSetSum, v2.LineSetSum = true, true
		p.ctxs = append(p.ctxs, &purgeCtx{name: "extra", meta: m2, vmeta: v2, repos: map[string]*mRepo{}})
		w.Probe("extra-context")
	}
	for i := 0; i < 6; i++ {
		p.pool = append(p.pool, append([]byte(fmt.Sprintf("pool %d ", i)), t.Bytes(t.Pick(0, 10, 64, 100, 150))...))
	}
	if t.Bool(1, 2) {
		p.pool = append(p.pool, []byte{}, []byte{}) // empty files (_SUCCESS, .keep): a root blob and no leaf
	}
	setup := w.Client("setup")
	// ---- history
	for _, pc := range p.ctxs {
		for _, rn := range []string{"ra", "ra-b", "rb"}[:t.Range(1, 3)] {
			tk, v := doOp(prop, w, setup, "create-repo", func() (interface{}, error) {
				return nil, core.CreateRepo(model.RepoDescriptor{Name: rn, Description: "d", Contributor: contributor}, p.stores(setup, pc))
			})
			if v != nil {
				return v
			}
			if tk.Err != nil {
				return Viol(prop, "harness", "create-repo", rn, "%v", tk.Err)
			}
			pc.repos[rn] = &mRepo{Name: rn, Labels: map[string]string{}}
		}
	}
	orphaned := map[string]bool{} // blobs that were referenced once and are no longer
	nOps := t.Range(3, 8)
	for i := 0; i < nOps; i++ {
		pc := p.ctxs[t.Choose(len(p.ctxs))]
		rns := sortedKeys(pc.repos)
		r := pc.repos[rns[t.Choose(len(rns))]]
		switch k := t.Pick(0, 0, 0, 1, 2); {
		case k == 0 || len(r.Bundles) == 0:
			tr := p.drawTreeFromPool(t, fmt.Sprintf("h%d", i), t.Bool(1, 4))
			tk, v := doOp(prop, w, setup, "upload", p.uploadTo(setup, pc, r.Name, tr))
			if v != nil {
				return v
			}
			if tk.Err != nil {
				return Viol(prop, "harness", "upload", r.Name, "%v", tk.Err)
			}
			r.Bundles = append(r.Bundles, &mBundle{ID: tk.Result.(*core.Bundle).BundleID, Tree: tr, Leaf: p.leaf})
		case k == 1:
			victim := r.Bundles[t.Choose(len(r.Bundles))]
			tk, v := doOp(prop, w, setup, "delete-bundle", func() (interface{}, error) { return nil, core.DeleteBundle(r.Name, p.stores(setup, pc), victim.ID) })
			if v != nil {
				return v
			}
			if tk.Err != nil {
				return Viol(prop, "harness", "delete-bundle", r.Name, "%v", tk.Err)
			}
			blobKeysOf(victim.Tree, p.leaf, orphaned)
			r.remove(victim.ID)
		default:
			tk, v := doOp(prop, w, setup, "squash", func() (interface{}, error) { return nil, core.RepoSquash(p.stores(setup, pc), r.Name) })
			if v != nil {
				return v
			}
			if tk.Err != nil {
				return Viol(prop, "harness", "squash", r.Name, "%v", tk.Err)
			}
			ids := r.ids()
			for _, id := range ids[:len(ids)-1] {
				blobKeysOf(r.find(id).Tree, p.leaf, orphaned)
				r.remove(id)
			}
		}
	}
	if variant == "faulty-large" {
		// one bundle of several hundred distinct small files: more than a thousand keys (roots and leaves) for one index chunk
		pc := p.ctxs[0]
		rns := sortedKeys(pc.repos)
		r := pc.repos[rns[0]]
		tr := Tree{}
		for i, n := 0, t.Pick(530, 700, 1100); i < n; i++ {
			tr[fmt.Sprintf("many/f%04d", i)] = []byte(fmt.Sprintf("distinct small content %d", i))
		}
		tk, v := doOp(prop, w, setup, "upload-many", p.uploadTo(setup, pc, r.Name, tr))
		if v != nil {
			return v
		}
		if tk.Err != nil {
			return Viol(prop, "harness", "upload", r.Name, "%v", tk.Err)
		}
		r.Bundles = append(r.Bundles, &mBundle{ID: tk.Result.(*core.Bundle).BundleID, Tree: tr, Leaf: p.leaf})
		w.Probe("index-of-1000+-keys")
	}
	referenced := func() map[string]bool {
		m := map[string]bool{}
		for _, pc := range p.ctxs {
			for _, r := range pc.repos {
				for _, b := range r.Bundles {
					blobKeysOf(b.Tree, p.leaf, m)
				}
			}
		}
		return m
	}
	refAtIndex := referenced()
	for k := range refAtIndex {
		delete(orphaned, k)
	}
	before := map[string]bool{}
	for _, pc := range p.ctxs {
		for _, r := range pc.repos {
			for _, b := range r.Bundles {
				before[b.ID] = true
			}
		}
	}
	blobsAtIndex := map[string]bool{}
	for _, k := range d.Blob.Keys() {
		blobsAtIndex[k] = true
	}
	time.Sleep(time.Duration(t.Range(1, 3)) * time.Hour)

	// ---- build the reverse-lookup index
	purger := w.Client("purger")
	main := p.ctxs[0]
	var extra []context2.Stores
	for _, pc := range p.ctxs[1:] {
		extra = append(extra, p.stores(purger, pc))
	}
	chunk := uint64(t.Pick(1, 2, 3, 5, 50, 500000))
	popts := func(c *simkit.Client, dir string, more ...core.PurgeOption) []core.PurgeOption {
		var ex []context2.Stores
		for _, pc := range p.ctxs[1:] {
			ex = append(ex, p.stores(c, pc))
		}
		o := []core.PurgeOption{core.WithPurgeLogger(nopLog), core.WithPurgeLocalStore(filepath.Join(rc.Dir, dir)), core.WithPurgeIndexChunkSize(chunk), core.WithPurgeParallel(t.Pick(1, 4, 10)), core.WithPurgeExtraContexts(ex)}
		return append(o, more...)
	}
	_ = extra
	indexStart := time.Now()
	c14Resume := false
	switch variant {
	case "faulty-large":
		chunk = uint64(t.Pick(1500, 500000))
		nth, n := t.Range(0, 1), 0
		w.Faults = &simkit.FaultCfg{Plan: []*simkit.Planned{{Client: "purger", Kind: simkit.Kind(int(simkit.FErr) + t.Choose(2)), Match: func(c *simkit.Call) bool {
			if !c.Op.IsWrite() || !strings.HasPrefix(c.Key, "reverse-index") {
				return false
			}
			n++
			return n-1 == nth
		}}}}
	case "faulty":
		// transient failures of index-chunk writes, list pages and reads
		w.Faults = &simkit.FaultCfg{Err: 60, AckLost: 25, Stall: 15, Budget: t.Range(1, 3), Eligible: func(c *simkit.Call) bool {
			return c.Client == purger && (strings.HasPrefix(c.Key, "reverse-index") || c.Op == simkit.OpKeysPrefix || c.Op == simkit.OpGet)
		}}
	case "scan-read-error":
		w.Faults = &simkit.FaultCfg{Err: 300, Budget: t.Range(1, 2), Eligible: func(c *simkit.Call) bool {
			return c.Client == purger && c.Op == simkit.OpGet && c.Bucket == d.Blob
		}}
	case "fault-free", "dedup-onto-orphan":
		if prop == "C14" && t.Bool(1, 3) {
			// the operator runs the (complete, fault-free) index build a second time with --resume: the index stays exact
			c14Resume = true
			if chunk > 5 && t.Bool(2, 3) {
				chunk = uint64(t.Pick(1, 1, 2, 3)) // many chunks
			}
		}
		if t.Bool(1, 2) {
			w.Faults = &simkit.FaultCfg{Stall: 60, Budget: 2, Eligible: func(c *simkit.Call) bool { return c.Client == purger }} // slow calls only: the 5-minute uploader fires
			if t.Bool(1, 3) {
				// a very slow scan over small chunks: the periodic uploader writes several chunks before the scan ends
				w.Faults.Stall, w.Faults.Budget = 250, 8
				chunk = uint64(t.Pick(1, 2, 3))
				w.Probe("slow-scan-small-chunks")
			}
		}
	case "crash-resume":
		// the build dies at one of its writes (two per index chunk: delete, put), early or after many chunks; sometimes it
		// does not die at all and the operator simply runs it again with --resume over the completed index
		nth := t.Range(0, 4)
		if t.Bool(1, 2) {
			nth = t.Range(5, 60)
		}
		w.Faults = &simkit.FaultCfg{Stall: 120, Budget: 3, Eligible: func(c *simkit.Call) bool { return c.Client == purger },
			Plan: []*simkit.Planned{{Client: "purger", Nth: nth, Kind: simkit.Kind(int(simkit.FCrashB) + t.Choose(2))}}}
		if chunk > 5 && t.Bool(2, 3) {
			chunk = uint64(t.Pick(1, 1, 2, 3)) // many chunks
		}
	}
	// a late uploader that starts after the index build started (its blobs are more recent than the index)
	lateTrees := []Tree{}
	var lateTasks []*simkit.Task
	var latePcs []*purgeCtx
	var lateRepos []string
	startLate := func(n int) {
		pc := p.ctxs[t.Choose(len(p.ctxs))]
		rns := sortedKeys(pc.repos)
		rn := rns[t.Choose(len(rns))]
		var tr Tree
		if variant == "dedup-onto-orphan" {
			// directed: re-upload exactly a content that is orphaned at index time
			tr = Tree{}
			for _, c := range p.pool {
				tmp := map[string]bool{}
				blobKeysOf(Tree{"x": c}, p.leaf, tmp)
				for k := range tmp {
					if orphaned[k] {
						tr[fmt.Sprintf("again-%d", len(tr))] = c
						break
					}
				}
			}
			if len(tr) == 0 {
				tr = Tree{"nothing-orphaned": []byte("fresh content")}
			} else {
				w.Probe("late-upload-reuses-orphan")
			}
		} else {
			// open search: late uploads use fresh content or content referenced at index time, never content that
			// is orphaned at index time (recorded finding C13/purge-lost-data/dedup-onto-orphaned-blob)
			tr = Tree{}
			for i := 0; i < t.Range(1, 3); i++ {
				c := p.pool[t.Choose(len(p.pool))]
				tmp := map[string]bool{}
				blobKeysOf(Tree{"x": c}, p.leaf, tmp)
				ok := true
				for k := range tmp {
					if !refAtIndex[k] && blobsAtIndex[k] {
						ok = false // exists in the blob store but unreferenced: an orphan
					}
					if !refAtIndex[k] && !blobsAtIndex[k] {
						// never stored: fine (fresh)
						continue
					}
				}
				if !ok || t.Bool(1, 3) {
					c = append([]byte(fmt.Sprintf("late %d.%d ", n, i)), t.Bytes(t.Range(0, 130))...)
				}
				tr[fmt.Sprintf("late%d-%d", n, i)] = c
			}
		}
		lc := w.Client(fmt.Sprintf("late%d", n))
		lateTrees = append(lateTrees, tr)
		latePcs = append(latePcs, pc)
		lateRepos = append(lateRepos, rn)
		lateTasks = append(lateTasks, w.Go(lc, "upload-late", p.uploadTo(lc, pc, rn, tr)))
	}
	nLate := 0
	bt := w.Go(purger, "build-index", func() (interface{}, error) {
		return core.PurgeBuildReverseIndex(p.stores(purger, main), popts(purger, "idx-build")...)
	})
	heldLate, heldLateOutside, heldIdx := false, false, -1
	if prop == "C13" && variant == "crash-resume" && t.Bool(1, 2) {
		heldIdx = len(lateTasks)
		// an upload that starts during the (first) build and is still in flight - stuck before its last write, the bundle
		// descriptor - while the build dies and is resumed; it commits after the resumed build has finished
		heldLate = true
		name := fmt.Sprintf("late%d", nLate)
		w.Hold(func(c *simkit.Call) bool {
			return c.Client.Name == name && c.Bucket != nil && strings.HasSuffix(c.Key, "/bundle.yaml") && (c.Op == simkit.OpPut || c.Op == simkit.OpPutExcl)
		})
		startLate(nLate)
		nLate++
		w.Probe("upload-in-flight-across-resume")
	} else if prop == "C13" && t.Bool(1, 3) {
		startLate(nLate) // concurrent with the index build
		nLate++
	}
	if v := w.Run(); v != nil {
		if variant == "faulty-large" && v.Class == "deadlock" && fired(w) {
			// an index build that never returns after a failed chunk write (its key producer blocks on a full channel nobody
			// reads any more) has lost nothing: outside the statement of C13, an observation of DESIGN.md; the run stops here
			w.Probe("hang-after-store-error")
			return nil
		}
		v.Property = prop
		return v
	}
	if pv := taskProblem(prop, bt, "PurgeBuildReverseIndex"); pv != nil {
		return pv
	}
	buildOK := bt.Err == nil && !purger.Dead
	rerunComplete := (variant == "crash-resume" || c14Resume) && !purger.Dead && bt.Err == nil
	if rerunComplete {
		w.Probe("resume-over-completed-index")
	}
	if purger.Dead || rerunComplete {
		if purger.Dead {
			w.Probe("build-crashed")
		}
		if n := len(main.meta.KeysWithPrefix(model.ReverseIndexPrefix())); n >= 10 {
			w.Probe("resume-over-10+-chunks")
		}
		if heldLate && len(main.meta.KeysWithPrefix(model.ReverseIndexPrefix())) == 0 {
			// nothing of the first build survives: the resumed build IS the index build and starts now, after the slow
			// upload started - an upload in flight when the index is started is outside the statement
			heldLateOutside = true
			w.Probe("in-flight-upload-predates-the-only-surviving-build")
		}
		// resume in a fresh process with a fresh local directory
		if w.Faults == nil {
			w.Faults = &simkit.FaultCfg{}
		}
		w.Faults.Plan = nil
		purger = w.Client("purger2")
		w.Faults.Eligible = func(c *simkit.Call) bool { return c.Client == purger }
		rt, v := doOp(prop, w, purger, "build-index-resume", func() (interface{}, error) {
			return core.PurgeBuildReverseIndex(p.stores(purger, main), popts(purger, "idx-resume", core.WithPurgeResumeIndex(true))...)
		})
		if v != nil {
			return v
		}
		buildOK = rt.Err == nil
		if rt.Err != nil {
			w.Note("resume failed: %v", rt.Err)
		} else {
			w.Probe("build-resumed")
		}
		bt = rt
	}
	w.Faults = nil
	if heldLate {
		// the slow uploader gets through now
		if w.ReleaseHeld() > 0 {
			if v := w.Run(); v != nil {
				v.Property = prop
				return v
			}
		}
	}
	if !buildOK && (variant == "fault-free" || variant == "dedup-onto-orphan") && !fired(w) {
		return Viol(prop, "purge-command-failed", "PurgeBuildReverseIndex", "", "the index build failed although no store call failed and nothing was interrupted: %v", bt.Err)
	}
	if !buildOK && prop == "C13" && variant != "dedup-onto-orphan" {
		// the operator runs the build again (from scratch, or with --resume), this time without faults: the leftovers of
		// the failed run must not make the final index unsafe
		w.Probe("build-reported-failure-then-rerun")
		resume := t.Bool(1, 2)
		rc2 := w.Client("purger-rerun")
		rt, v := doOp(prop, w, rc2, "build-index-rerun", func() (interface{}, error) {
			if resume {
				return core.PurgeBuildReverseIndex(p.stores(rc2, main), popts(rc2, "idx-rerun", core.WithPurgeResumeIndex(true))...)
			}
			return core.PurgeBuildReverseIndex(p.stores(rc2, main), popts(rc2, "idx-rerun")...)
		})
		if v != nil {
			return v
		}
		if rt.Err == nil {
			buildOK, bt = true, rt
			rerunComplete = true // (NumEntries of a re-run is not compared)
			// (a build from scratch is a new index started now; the uploads of this phase have all been committed by now,
			// so they count as committed before it)
		} else {
			w.Note("the re-run of the failed build failed too: %v", rt.Err)
		}
	}
	if !buildOK {
		w.Probe("build-reported-failure")
		w.Note("index build reported failure (%v): nothing is claimed for this run", bt.Err)
		return nil
	}
	idx, _ := bt.Result.(*core.PurgeIndex)
	if idx == nil {
		return Viol(prop, "purge-command-failed", "PurgeBuildReverseIndex", "", "the index build returned neither an error nor a result")
	}
	w.Note("%s: contexts %d, bundles at index time %d, referenced blobs %d, orphaned %d, chunk size %d -> index of %d keys", variant, len(p.ctxs), len(before), len(refAtIndex), len(orphaned), chunk, idx.NumEntries)

	// C14: the index holds exactly the referenced keys, each once
	if prop == "C14" {
		seen := map[string]int{}
		for _, k := range main.meta.KeysWithPrefix(model.ReverseIndexPrefix()) {
			sc := bufio.NewScanner(bytes.NewReader(main.meta.Peek(k).Data))
			first := true
			for sc.Scan() {
				if first {
					first = false
					continue
				}
				seen[sc.Text()]++
			}
		}
		for _, k := range sortedKeys(refAtIndex) {
			if seen[k] == 0 {
				return Viol(prop, "index-misses-key", "PurgeBuildReverseIndex", k, "blob %s… is referenced by a scanned bundle but is not in the reverse-lookup index (%d keys indexed, %d referenced, chunk size %d)", k[:10], len(seen), len(refAtIndex), chunk)
			}
		}
		for _, k := range sortedKeys(seen) {
			if !refAtIndex[k] {
				return Viol(prop, "index-foreign-key", "PurgeBuildReverseIndex", k, "the index lists %s… which no scanned bundle references", k[:10])
			}
			if seen[k] > 1 {
				return Viol(prop, "index-duplicate-key", "PurgeBuildReverseIndex", k, "the index lists %s… %d times", k[:10], seen[k])
			}
		}
		// (a run with --resume reports the keys it added itself: the statement is about the index, not that count)
		if !rerunComplete && idx.NumEntries != uint64(len(refAtIndex)) {
			return Viol(prop, "index-count", "PurgeBuildReverseIndex", "", "the command reports %d indexed keys, %d are referenced", idx.NumEntries, len(refAtIndex))
		}
	}

	// ---- uploads between index and delete, and during delete
	time.Sleep(time.Duration(t.Range(1, 90)) * time.Minute)
	if t.Bool(1, 2) || variant == "dedup-onto-orphan" {
		startLate(nLate)
		nLate++
		if v := w.Run(); v != nil {
			v.Property = prop
			return v
		}
	}
	deleter := w.Client("deleter")
	if variant == "faulty" {
		w.Faults = &simkit.FaultCfg{Err: 60, AckLost: 20, Stall: 10, Budget: t.Range(1, 3), Eligible: func(c *simkit.Call) bool {
			return c.Client == deleter && (c.Op == simkit.OpGetAttr || c.Op == simkit.OpDelete || c.Op == simkit.OpKeysPrefix || c.Op == simkit.OpGet)
		}}
	}
	dt := w.Go(deleter, "delete-unused", func() (interface{}, error) {
		return core.PurgeDeleteUnused(p.stores(deleter, main), popts(deleter, "idx-delete")...)
	})
	if t.Bool(1, 2) && variant != "dedup-onto-orphan" {
		startLate(nLate) // concurrent with the deletion
		nLate++
	}
	if v := w.Run(); v != nil {
		v.Property = prop
		return v
	}
	w.Faults = nil
	if pv := taskProblem(prop, dt, "PurgeDeleteUnused"); pv != nil {
		return pv
	}
	for i, lt := range lateTasks {
		if pv := taskProblem(prop, lt, "late upload"); pv != nil {
			return pv
		}
		if lt.Err != nil {
			return Viol(prop, "late-upload-failed", "Upload", "", "an upload running next to purge failed: %v", lt.Err)
		}
		if heldLateOutside {
			// nothing is claimed for it, nor for a later upload that dedups onto its blobs (they are old and unreferenced
			// when the only surviving build starts: the recorded finding C13/purge-lost-data/dedup-onto-orphaned-blob)
			if i == heldIdx {
				continue
			}
			hb, mine := map[string]bool{}, map[string]bool{}
			blobKeysOf(lateTrees[heldIdx], p.leaf, hb)
			blobKeysOf(lateTrees[i], p.leaf, mine)
			shares := false
			for k := range mine {
				if hb[k] && !refAtIndex[k] {
					shares = true
				}
			}
			if shares {
				continue
			}
		}
		latePcs[i].repos[lateRepos[i]].Bundles = append(latePcs[i].repos[lateRepos[i]].Bundles, &mBundle{ID: lt.Result.(*core.Bundle).BundleID, Tree: lateTrees[i], Leaf: p.leaf})
	}
	if dt.Err != nil && (variant == "fault-free" || variant == "dedup-onto-orphan") && !fired(w) {
		return Viol(prop, "purge-command-failed", "PurgeDeleteUnused", "", "delete-unused failed although no store call failed and nothing was interrupted: %v", dt.Err)
	}
	if dt.Err != nil {
		w.Probe("delete-reported-failure")
		w.Note("delete-unused reported failure (%v): nothing is claimed for this run", dt.Err)
		return nil
	}
	res, _ := dt.Result.(*core.PurgeBlobs)
	if res == nil {
		return Viol(prop, "purge-command-failed", "PurgeDeleteUnused", "", "delete-unused returned neither an error nor a result")
	}
	w.Probe("nontrivial")
	w.ProbeN("blobs-deleted", int(res.DeletedEntries))
	if res.DeletedEntries > 0 {
		w.Probe("purge-deleted-something")
	}
	_ = indexStart

	// C14: exactly the unreferenced old blobs are gone
	if prop == "C14" {
		now := map[string]bool{}
		for _, k := range d.Blob.Keys() {
			now[k] = true
		}
		for _, k := range sortedKeys(blobsAtIndex) {
			switch {
			case refAtIndex[k] && !now[k]:
				return Viol(prop, "referenced-blob-deleted", "PurgeDeleteUnused", k, "blob %s… is referenced by a scanned bundle and was deleted", k[:10])
			case !refAtIndex[k] && now[k]:
				// an old unreferenced blob may only survive if a late upload rewrote/refreshed it
				if o := d.Blob.Peek(k); o != nil && !o.Updated.After(idx.IndexTime) {
					return Viol(prop, "unreferenced-blob-kept", "PurgeDeleteUnused", k, "blob %s… is older than the index, referenced by no scanned bundle, and still there", k[:10])
				}
			}
		}
		for _, k := range sortedKeys(now) {
			if !blobsAtIndex[k] {
				continue // written after the index: must be kept (it is)
			}
		}
	}
	// C13 (and C14's "keeping all others"): everything committed before the index, and everything whose upload started
	// after it, still downloads
	what := "committed before the index was built"
	if v := p.checkDownloads(w.Client("observer"), what, func(b *mBundle) bool { return before[b.ID] }); v != nil {
		switch variant {
		case "faulty":
			v.Discr = discrOfPurgeLoss(w, variant)
		case "scan-read-error":
			v.Discr = "transient-read-error-during-index-scan"
		case "crash-resume":
			v.Discr = "resume-before-any-index-chunk"
			for _, ev := range w.History {
				if ev.Client == "purger" && ev.Landed && strings.HasPrefix(ev.Key, "reverse-index") && (ev.Op == simkit.OpPut || ev.Op == simkit.OpPutExcl) {
					v.Discr = "resume-after-index-chunk-landed"
				}
			}
		}
		return v
	}
	if v := p.checkDownloads(w.Client("observer2"), "uploaded after the index was started", func(b *mBundle) bool { return !before[b.ID] }); v != nil {
		if variant == "dedup-onto-orphan" {
			v.Discr = "dedup-onto-orphaned-blob"
		} else if variant == "faulty" {
			v.Discr = discrOfPurgeLoss(w, variant)
		}
		return v
	}
	return nil
}

// discrOfPurgeLoss names the kind of fault that fired on the purge commands of this run: the discriminator of a
// data-loss violation is the fault pattern, computed from the history.
func discrOfPurgeLoss(w *simkit.World, variant string) string {
	var kinds []string
	seen := map[string]bool{}
	for _, ev := range w.History {
		if ev.Fault == simkit.FNone || ev.Fault == simkit.FStall {
			continue
		}
		if !strings.HasPrefix(ev.Client, "purger") && ev.Client != "deleter" {
			continue
		}
		what := ev.Op.String()
		if strings.HasPrefix(ev.Key, "reverse-index") {
			what += "(index-chunk)"
		}
		k := ev.Fault.String() + " on " + what
		if !seen[k] {
			seen[k] = true
			kinds = append(kinds, k)
		}
	}
	sort.Strings(kinds)
	if len(kinds) == 0 {
		return variant + "/no-fault-fired"
	}
	return strings.Join(kinds, "+")
}

// runC14Lock: k concurrent purge lock acquisitions: exactly one succeeds unless forced; unlock lets exactly one more in.
func runC14Lock(rc *RunCtx) *simkit.Violation {
	const prop = "C14"
	w := rc.W
	t := w.W
	d := newDM(rc)
	k := t.Range(2, 5)
	forceIdx := -1
	if t.Bool(1, 4) {
		forceIdx = t.Choose(k)
	}
	try := func(round string, force int) (int, *simkit.Violation) {
		var tasks []*simkit.Task
		for i := 0; i < k; i++ {
			c := w.Client(fmt.Sprintf("locker-%s-%d", round, i))
			f := i == force
			tasks = append(tasks, w.Go(c, "purge-lock", func() (interface{}, error) {
				return nil, core.PurgeLock(d.Stores(c), core.WithPurgeLogger(nopLog), core.WithPurgeForce(f))
			}))
		}
		if v := w.Run(); v != nil {
			v.Property = prop
			return 0, v
		}
		n := 0
		for _, tk := range tasks {
			if pv := taskProblem(prop, tk, "PurgeLock"); pv != nil {
				return 0, pv
			}
			if tk.Err == nil {
				n++
			}
		}
		return n, nil
	}
	w.Note("%d concurrent PurgeLock, forced=%d", k, forceIdx)
	n, v := try("a", forceIdx)
	if v != nil {
		return v
	}
	// without force exactly one; with one forced locker: the forced one always succeeds, plus possibly the one that got in before it
	if forceIdx < 0 && n != 1 {
		return Viol(prop, "lock-not-exclusive", "PurgeLock", "", "%d of %d concurrent lock acquisitions succeeded", n, k)
	}
	if forceIdx >= 0 && (n < 1 || n > 2) {
		return Viol(prop, "lock-not-exclusive", "PurgeLock-force", "", "%d of %d concurrent lock acquisitions succeeded with one of them forced", n, k)
	}
	// held: nobody else gets in
	n, v = try("b", -1)
	if v != nil {
		return v
	}
	if n != 0 {
		return Viol(prop, "lock-not-exclusive", "PurgeLock-held", "", "%d lock acquisitions succeeded while the lock is held", n)
	}
	ul := w.Client("unlocker")
	tk, v := doOp(prop, w, ul, "purge-unlock", func() (interface{}, error) { return nil, core.PurgeUnlock(d.Stores(ul), core.WithPurgeLogger(nopLog)) })
	if v != nil {
		return v
	}
	if tk.Err != nil {
		return Viol(prop, "unlock-failed", "PurgeUnlock", "", "%v", tk.Err)
	}
	n, v = try("c", -1)
	if v != nil {
		return v
	}
	if n != 1 {
		return Viol(prop, "lock-not-exclusive", "PurgeLock-after-unlock", "", "%d of %d lock acquisitions succeeded after the unlock", n, k)
	}
	if w.Stats.Concurrent > 0 {
		w.Probe("nontrivial")
	}
	return nil
}

func init() {
	Register(&Scenario{Prop: "C14", Name: "purge-cycles", Strict: false, Quick: 3, Thorough: 4, Run: func(rc *RunCtx) *simkit.Violation { return runPurgeCycles(rc, "C14") }})
	Register(&Scenario{Prop: "C13", Name: "purge-cycles", Strict: false, Quick: 2, Thorough: 3, Run: func(rc *RunCtx) *simkit.Violation { return runPurgeCycles(rc, "C13") }})
}

// runPurgeCycles: the operator purges periodically - build the index, delete unused, weeks later again - and, unless
// told otherwise, every command works in the same local directory (datamon's default is a fixed relative path). Fault
// free: after every cycle the index is exactly the referenced keys, exactly the unreferenced old blobs are gone and
// every bundle downloads.
func runPurgeCycles(rc *RunCtx, prop string) *simkit.Violation {
	w := rc.W
	t := w.W
	d := newDM(rc)
	p := &pWorld{prop: prop, rc: rc, d: d, leaf: 64}
	main := &purgeCtx{name: "main", meta: d.Meta, vmeta: d.VMet, repos: map[string]*mRepo{}}
	p.ctxs = []*purgeCtx{main}
	for i := 0; i < 6; i++ {
		p.pool = append(p.pool, append([]byte(fmt.Sprintf("pool %d ", i)), t.Bytes(t.Pick(0, 10, 64, 100, 150))...))
	}
	if t.Bool(1, 2) {
		p.pool = append(p.pool, []byte{}, []byte{}) // empty files (_SUCCESS, .keep): a root blob and no leaf
	}
	setup := w.Client("setup")
	for _, rn := range []string{"ra", "rb"}[:t.Range(1, 2)] {
		tk, v := doOp(prop, w, setup, "create-repo", func() (interface{}, error) {
			return nil, core.CreateRepo(model.RepoDescriptor{Name: rn, Description: "d", Contributor: contributor}, p.stores(setup, main))
		})
		if v != nil {
			return v
		}
		if tk.Err != nil {
			return Viol(prop, "harness", "create-repo", rn, "%v", tk.Err)
		}
		main.repos[rn] = &mRepo{Name: rn, Labels: map[string]string{}}
	}
	nUp := 0
	history := func(nOps int) *simkit.Violation {
		for i := 0; i < nOps; i++ {
			rns := sortedKeys(main.repos)
			r := main.repos[rns[t.Choose(len(rns))]]
			if len(r.Bundles) > 0 && t.Bool(1, 3) {
				victim := r.Bundles[t.Choose(len(r.Bundles))]
				tk, v := doOp(prop, w, setup, "delete-bundle", func() (interface{}, error) { return nil, core.DeleteBundle(r.Name, p.stores(setup, main), victim.ID) })
				if v != nil {
					return v
				}
				if tk.Err != nil {
					return Viol(prop, "harness", "delete-bundle", r.Name, "%v", tk.Err)
				}
				r.remove(victim.ID)
				continue
			}
			nUp++
			tr := p.drawTreeFromPool(t, fmt.Sprintf("u%d", nUp), t.Bool(1, 3))
			tk, v := doOp(prop, w, setup, "upload", p.uploadTo(setup, main, r.Name, tr))
			if v != nil {
				return v
			}
			if tk.Err != nil {
				return Viol(prop, "harness", "upload", r.Name, "%v", tk.Err)
			}
			r.Bundles = append(r.Bundles, &mBundle{ID: tk.Result.(*core.Bundle).BundleID, Tree: tr, Leaf: p.leaf})
		}
		return nil
	}
	if v := history(t.Range(2, 5)); v != nil {
		return v
	}
	sameDir := t.Bool(2, 3)
	chunk := uint64(t.Pick(1, 2, 3, 50, 500000))
	cycles := t.Range(2, 3)
	w.Note("%d purge cycles, same local directory for every command: %v, chunk size %d", cycles, sameDir, chunk)
	for cy := 1; cy <= cycles; cy++ {
		time.Sleep(time.Duration(t.Range(1, 48)) * time.Hour)
		ref := map[string]bool{}
		for _, r := range main.repos {
			for _, b := range r.Bundles {
				blobKeysOf(b.Tree, p.leaf, ref)
			}
		}
		blobsBefore := d.Blob.Keys()
		dir := func(cmd string) string {
			if sameDir {
				return filepath.Join(rc.Dir, "datamon-index")
			}
			return filepath.Join(rc.Dir, fmt.Sprintf("%s-%d", cmd, cy))
		}
		opts := func(cmd string) []core.PurgeOption {
			return []core.PurgeOption{core.WithPurgeLogger(nopLog), core.WithPurgeLocalStore(dir(cmd)), core.WithPurgeIndexChunkSize(chunk), core.WithPurgeParallel(t.Pick(1, 4))}
		}
		bc := w.Client(fmt.Sprintf("purger-%d", cy))
		bt, v := doOp(prop, w, bc, "build-index", func() (interface{}, error) { return core.PurgeBuildReverseIndex(p.stores(bc, main), opts("build")...) })
		if v != nil {
			return v
		}
		if pv := taskProblem(prop, bt, "PurgeBuildReverseIndex"); pv != nil {
			return pv
		}
		if idx, _ := bt.Result.(*core.PurgeIndex); bt.Err != nil || idx == nil {
			return Viol(prop, "purge-command-failed", "PurgeBuildReverseIndex", "", "cycle %d: the fault-free index build failed: %v", cy, bt.Err)
		}
		seen := map[string]int{}
		for _, k := range main.meta.KeysWithPrefix(model.ReverseIndexPrefix()) {
			sc := bufio.NewScanner(bytes.NewReader(main.meta.Peek(k).Data))
			first := true
			for sc.Scan() {
				if first {
					first = false
					continue
				}
				seen[sc.Text()]++
			}
		}
		if prop == "C14" {
			for _, k := range sortedKeys(ref) {
				if seen[k] == 0 {
					return Viol(prop, "index-misses-key", "purge-cycles", k, "cycle %d (same local directory: %v): blob %s… is referenced by a bundle but is not in the index (%d keys indexed, %d referenced)", cy, sameDir, k[:10], len(seen), len(ref))
				}
			}
			for _, k := range sortedKeys(seen) {
				if !ref[k] {
					return Viol(prop, "index-foreign-key", "purge-cycles", k, "cycle %d (same local directory: %v): the index lists %s… which no bundle references", cy, sameDir, k[:10])
				}
			}
		}
		time.Sleep(time.Duration(t.Range(1, 90)) * time.Minute)
		dc := w.Client(fmt.Sprintf("deleter-%d", cy))
		dt, v := doOp(prop, w, dc, "delete-unused", func() (interface{}, error) { return core.PurgeDeleteUnused(p.stores(dc, main), opts("delete")...) })
		if v != nil {
			return v
		}
		if pv := taskProblem(prop, dt, "PurgeDeleteUnused"); pv != nil {
			return pv
		}
		if res, _ := dt.Result.(*core.PurgeBlobs); dt.Err != nil || res == nil {
			return Viol(prop, "purge-command-failed", "PurgeDeleteUnused", "", "cycle %d: the fault-free delete-unused failed: %v", cy, dt.Err)
		}
		now := map[string]bool{}
		for _, k := range d.Blob.Keys() {
			now[k] = true
		}
		for _, k := range blobsBefore {
			switch {
			case ref[k] && !now[k]:
				return Viol(prop, "purge-lost-data", "purge-cycles", k, "cycle %d (same local directory: %v): blob %s… is referenced by a bundle and was deleted", cy, sameDir, k[:10])
			case prop == "C14" && !ref[k] && now[k]:
				return Viol(prop, "unreferenced-blob-kept", "purge-cycles", k, "cycle %d (same local directory: %v): blob %s… is older than the index, referenced by no bundle, and still there after delete-unused", cy, sameDir, k[:10])
			}
		}
		if v := p.checkDownloads(w.Client(fmt.Sprintf("observer-%d", cy)), fmt.Sprintf("purge cycle %d", cy), nil); v != nil {
			return v
		}
		w.Probe("purge-cycle-completed")
		if cy < cycles {
			if v := history(t.Range(1, 4)); v != nil {
				return v
			}
		}
	}
	w.Probe("nontrivial")
	return nil
}

//go:build verif

package props

import (
	"github.com/oneconcern/datamon/pkg/cafs"

	"verifsim/simkit"
)

// YieldsCompiledIn tells whether datamon was built with its in-memory yield points (build tag verif).
const YieldsCompiledIn = true

func init() { cafs.SimYield = simkit.YieldHook }

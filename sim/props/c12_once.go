package props

import (
	"fmt"
	"sort"
	"strings"

	"github.com/oneconcern/datamon/pkg/core"
	"github.com/oneconcern/datamon/pkg/model"
	"github.com/segmentio/ksuid"
	"gopkg.in/yaml.v2"

	"verifsim/simkit"
)

func init() {
	Register(&Scenario{Prop: "C12", Name: "protocol", Strict: true, Quick: 12, Thorough: 12, Run: func(rc *RunCtx) *simkit.Violation { return runC12(rc, "open") }})
	// directed reproductions of the two recorded findings (excluded from the open search)
	Register(&Scenario{Prop: "C12", Name: "known-concurrent-commits", Strict: true, Quick: 1, Thorough: 1, Run: func(rc *RunCtx) *simkit.Violation { return runC12(rc, "concurrent-commits") }})
	Register(&Scenario{Prop: "C12", Name: "known-crash-after-bundle-retry", Strict: true, Quick: 1, Thorough: 1, Run: func(rc *RunCtx) *simkit.Violation { return runC12(rc, "crash-after-bundle+retry") }})
}

// landedSeq returns the event sequence number at which a write of key landed in bucket (-1: never).
func landedSeq(w *simkit.World, bucket, key string) int {
	for _, ev := range w.History {
		if ev.Bucket == bucket && ev.Key == key && ev.Landed && (ev.Op == simkit.OpPut || ev.Op == simkit.OpPutExcl) {
			return ev.Seq
		}
	}
	return -1
}

type c12commit struct {
	task    *simkit.Task
	client  *simkit.Client
	diamond *core.Diamond
	invoke  int
	ret     int
}

func runC12(rc *RunCtx, variant string) *simkit.Violation {
	const prop = "C12"
	w := rc.W
	t := w.W
	defer drawCommitOpts(t)()
	d := newDM(rc)
	setup := w.Client("setup")
	if v := createRepo(prop, d, setup, "r1"); v != nil {
		return v
	}
	ct, v := doOp(prop, w, setup, "diamond-init", createDiamondFn(d.Stores(setup), "r1"))
	if v != nil {
		return v
	}
	if ct.Err != nil {
		return Viol(prop, "harness", "CreateDiamond", "", "%v", ct.Err)
	}
	did := ct.Result.(string)
	mode := []model.ConflictMode{model.EnableConflicts, model.IgnoreConflicts, model.EnableCheckpoints}[t.Choose(3)]
	ns := t.Range(1, 3)
	splitIDs := make([]string, ns)
	for i := range splitIDs {
		splitIDs[i] = ksuid.New().String()
	}
	shared := []string{"p0", "p1", "dir/p2"}
	drawSplitTree := func(si, run int) Tree {
		tr := Tree{fmt.Sprintf("only-%d", si): []byte(fmt.Sprintf("only %d run %d", si, run))}
		for _, p := range shared {
			if t.Bool(1, 2) {
				tr[p] = []byte(fmt.Sprintf("content %d", t.Choose(3)))
			}
		}
		return tr
	}
	type splitRun struct {
		si, run int
		tree    Tree
		client  *simkit.Client
		task    *simkit.Task
	}
	var runs []*splitRun
	var runDesc []string
	startSplit := func(si, run int, crash bool) *splitRun {
		sr := &splitRun{si: si, run: run, tree: drawSplitTree(si, run), client: w.Client(fmt.Sprintf("split%d.%d", si, run))}
		src := memDisk()
		_ = writeTree(src, sr.tree)
		if crash {
			w.Faults.Plan = append(w.Faults.Plan, &simkit.Planned{Client: sr.client.Name, Nth: t.Range(0, 5), Kind: simkit.Kind(int(simkit.FCrashB) + t.Choose(2))})
		}
		sr.task = w.Go(sr.client, fmt.Sprintf("split-add %d.%d", si, run), splitAddFn(d.Stores(sr.client), "r1", did, splitIDs[si], src, t.Pick(1, 4), 0, nil))
		runs = append(runs, sr)
		runDesc = append(runDesc, fmt.Sprintf("%d.%d%s", si, run, map[bool]string{true: "!", false: ""}[crash]))
		return sr
	}
	var commits []*c12commit
	startCommit := func(name string, crashNth int, kind simkit.Kind) *c12commit {
		c := &c12commit{client: w.Client(name), invoke: w.SeqNow()}
		if crashNth >= 0 {
			w.Faults.Plan = append(w.Faults.Plan, &simkit.Planned{Client: name, Nth: crashNth, Kind: kind})
		}
		c.task = w.Go(c.client, name, commitFn(d.Stores(c.client), "r1", did, mode, 0, &c.diamond))
		commits = append(commits, c)
		return c
	}
	w.Faults = &simkit.FaultCfg{}
	runPhase := func() *simkit.Violation {
		if v := w.Run(); v != nil {
			if v.Property == "" {
				v.Property = prop
			}
			return v
		}
		for _, c := range commits {
			if c.ret == 0 && (c.task.Done || c.client.Dead) {
				c.ret = w.SeqNow()
			}
		}
		return nil
	}
	bundleLanded := func() int {
		n := 0
		for _, k := range d.Meta.KeysWithPrefix("bundles/r1/") {
			if strings.HasSuffix(k, "/bundle.yaml") {
				n++
			}
		}
		return n
	}

	// --- phase 0: split runs (first runs), some crashing, maybe an early committer
	for si := 0; si < ns; si++ {
		startSplit(si, 0, t.Bool(1, 4))
		if t.Bool(1, 4) {
			startSplit(si, 1, false) // a concurrent second run of the same split id
		}
	}
	earlyCommit := variant == "open" && t.Bool(1, 4)
	if earlyCommit {
		startCommit("commit-early", -1, 0)
	}
	if v := runPhase(); v != nil {
		return v
	}
	// --- phase 1: re-runs of splits (crashed or not), maybe while a canceller / committer runs
	for si := 0; si < ns; si++ {
		crashed := false
		for _, r := range runs {
			if r.si == si && r.client.Dead {
				crashed = true
			}
		}
		if (crashed && t.Bool(1, 2)) || t.Bool(1, 4) {
			startSplit(si, 2, false) // (a crashed split is not always re-run: it may stay registered but incomplete)
		}
	}
	if v := runPhase(); v != nil {
		return v
	}
	terminal := func() bool { return d.VMet.Peek(model.GetArchivePathToFinalDiamond("r1", did)) != nil }
	// progress: without an early committer nothing can end the diamond during phases 0 and 1, so every split id that had at
	// least one run that was not killed is complete by now (a crashed run may be re-run, concurrent runs of one id: one wins)
	if variant == "open" && !earlyCommit {
		doneNow, _ := readDoneSplits(d.VMet, "r1", did)
		isDone := map[string]bool{}
		for _, s := range doneNow {
			isDone[s.ID] = true
		}
		for si, sid := range splitIDs {
			// (two runs started together may collide when they register the split: only a run that had the split id for
			// itself - the single first run, or the re-run of phase 1 - is required to get through)
			alive, errs, first := 0, []string{}, 0
			for _, r := range runs {
				if r.si == si && r.run < 2 {
					first++
				}
			}
			for _, r := range runs {
				if r.si == si && !r.client.Dead && (r.run == 2 || first == 1) {
					alive++
					if r.task.Err != nil {
						errs = append(errs, r.task.Err.Error())
					}
				}
			}
			if alive > 0 && !isDone[sid] {
				return Viol(prop, "split-never-completes", "split add", sid, "split %d had %d run(s) that were not interrupted, on a diamond nobody committed or canceled, and is not complete: %v", si, alive, errs)
			}
		}
		w.Probe("splits-complete-before-commit")
	}
	// --- phase 2: commit(s) / cancel
	canceled := false
	var cancelTask *simkit.Task
	doneBeforeCommit := 0
	if ds, _ := readDoneSplits(d.VMet, "r1", did); ds != nil {
		doneBeforeCommit = len(ds)
	}
	switch variant {
	case "concurrent-commits":
		startCommit("commit-a", -1, 0)
		startCommit("commit-b", -1, 0)
		if v := runPhase(); v != nil {
			return v
		}
	case "crash-after-bundle+retry":
		// the commit dies after its bundle descriptor landed (before or after the diamond's final descriptor is attempted)
		startCommit("commit-a", -1, 0)
		w.Faults.Plan = append(w.Faults.Plan, &simkit.Planned{Client: "commit-a", Kind: simkit.FCrashA, Match: func(cl *simkit.Call) bool {
			return strings.HasSuffix(cl.Key, "/bundle.yaml") && cl.Op == simkit.OpPutExcl
		}})
		if v := runPhase(); v != nil {
			return v
		}
		startCommit("commit-retry", -1, 0)
		if v := runPhase(); v != nil {
			return v
		}
	default:
		if !terminal() {
			withCancel := t.Bool(1, 5)
			crashNth, kind := -1, simkit.Kind(0)
			if t.Bool(1, 3) {
				crashNth, kind = t.Range(0, 3), simkit.Kind(int(simkit.FCrashB)+t.Choose(2))
			}
			c := startCommit("commit-a", crashNth, kind)
			if withCancel {
				cc := w.Client("canceller")
				cancelTask = w.Go(cc, "cancel", cancelFn(d.Stores(cc), "r1", did))
				canceled = true
			}
			if v := runPhase(); v != nil {
				return v
			}
			// progress: an uninterrupted commit of a diamond with complete splits succeeds unless a cancel got in first;
			// a cancel that reports success has ended the diamond; of an uninterrupted commit and a cancel, one succeeds
			if !c.client.Dead && c.task.Done {
				switch {
				case cancelTask == nil && doneBeforeCommit > 0 && c.task.Err != nil:
					return Viol(prop, "commit-refused", "Commit", did, "an uninterrupted commit of an open diamond with %d complete split(s), with no cancel around, failed: %v", doneBeforeCommit, c.task.Err)
				case cancelTask != nil && cancelTask.Done && cancelTask.Err != nil && c.task.Err != nil && doneBeforeCommit > 0:
					return Viol(prop, "commit-refused", "Commit-and-Cancel", did, "a commit (%d complete splits) and a cancel raced and both failed: commit: %v; cancel: %v", doneBeforeCommit, c.task.Err, cancelTask.Err)
				}
			}
			if cancelTask != nil && cancelTask.Done && cancelTask.Err == nil {
				o := d.VMet.Peek(model.GetArchivePathToFinalDiamond("r1", did))
				var dd model.DiamondDescriptor
				if o == nil || yaml.Unmarshal(o.Data, &dd) != nil || dd.State != model.DiamondCanceled {
					return Viol(prop, "cancel-success-not-recorded", "Cancel", did, "the cancel reported success but the diamond's terminal descriptor does not say canceled (state %q, present=%v)", dd.State, o != nil)
				}
				w.Probe("successful-cancel-is-recorded")
			}
			// retry of a crashed commit: only when no bundle descriptor of this diamond has landed (the other case is
			// the recorded finding C12/two-bundles/crash-after-bundle-descriptor+retry, reproduced by its own scenario)
			if c.client.Dead && bundleLanded() == 0 && !terminal() {
				w.Probe("commit-crashed-before-descriptor")
				startCommit("commit-retry", -1, 0)
				if v := runPhase(); v != nil {
					return v
				}
			} else if c.client.Dead {
				w.Probe("commit-crashed-after-descriptor")
			}
		}
	}
	w.Faults = nil
	for _, r := range runs {
		if pv := taskProblem(prop, r.task, r.task.Name); pv != nil {
			return pv
		}
	}
	for _, c := range commits {
		if pv := taskProblem(prop, c.task, c.task.Name); pv != nil {
			return pv
		}
	}
	w.Note("diamond %s mode %s: %d split ids, runs %s, commits %d early=%v cancel=%v", tail4(did), mode, ns, strings.Join(runDesc, ","), len(commits), earlyCommit, canceled)

	// ---------------- oracles
	// (a) at most one bundle
	nBundles := bundleLanded()
	if nBundles > 1 {
		discr := "other"
		overlap := false
		for i := range commits {
			for j := range commits {
				if i < j && commits[j].invoke < commits[i].ret && commits[i].invoke < commits[j].ret {
					overlap = true
				}
			}
		}
		crashedAfter := false
		for _, c := range commits {
			if c.client.Dead && c.diamond != nil && c.diamond.BundleID != "" && d.Meta.Peek(model.GetArchivePathToBundle("r1", c.diamond.BundleID)) != nil {
				crashedAfter = true
			}
		}
		switch {
		case overlap:
			discr = "concurrent-commits"
		case crashedAfter:
			discr = "crash-after-bundle-descriptor+retry"
		}
		return Viol(prop, "two-bundles", discr, did, "diamond %s produced %d bundles (%d commit operations)", tail4(did), nBundles, len(commits))
	}
	if variant != "open" {
		return nil // the directed scenarios only exist to reproduce the recorded findings
	}
	// (a'') a diamond recorded as done names a bundle that exists (wherever the commit that recorded it stopped)
	if o := d.VMet.Peek(model.GetArchivePathToFinalDiamond("r1", did)); o != nil {
		var dd model.DiamondDescriptor
		if yaml.Unmarshal(o.Data, &dd) == nil && dd.State == model.DiamondDone {
			if dd.BundleID == "" || d.Meta.Peek(model.GetArchivePathToBundle("r1", dd.BundleID)) == nil {
				return Viol(prop, "diamond-done-without-bundle", "Commit", did, "the diamond is recorded as done with bundle %q, which does not exist: it can neither be committed again nor downloaded", dd.BundleID)
			}
		}
	}
	// (a') a commit that reports success is THE commit of the diamond: the terminal descriptor records "done" with its bundle
	for _, c := range commits {
		if c.client.Dead || !c.task.Done || c.task.Err != nil {
			continue
		}
		o := d.VMet.Peek(model.GetArchivePathToFinalDiamond("r1", did))
		var dd model.DiamondDescriptor
		if o == nil || yaml.Unmarshal(o.Data, &dd) != nil {
			return Viol(prop, "commit-success-not-recorded", "Commit", did, "%s reported success but the diamond has no (readable) terminal descriptor: it can be committed again", c.task.Name)
		}
		if dd.State != model.DiamondDone || c.diamond == nil || dd.BundleID != c.diamond.BundleID {
			got := ""
			if c.diamond != nil {
				got = c.diamond.BundleID
			}
			return Viol(prop, "commit-success-not-recorded", "Commit", did, "%s reported success with bundle %q but the diamond's terminal descriptor says state %q, bundle %q", c.task.Name, got, dd.State, dd.BundleID)
		}
		w.Probe("successful-commit-is-recorded")
	}
	// (b)(c) once terminal: commits, new splits and re-runs of done splits are refused
	late := w.Client("late")
	if terminal() {
		lt, v := doOp(prop, w, late, "commit-late", commitFn(d.Stores(late), "r1", did, mode, 0, nil))
		if v != nil {
			return v
		}
		if lt.Err == nil {
			return Viol(prop, "commit-after-terminal", "Commit", did, "a commit on a diamond that is already done/canceled succeeded")
		}
		src := memDisk()
		_ = writeTree(src, Tree{"late": []byte("late")})
		st, v := doOp(prop, w, late, "split-late", splitAddFn(d.Stores(late), "r1", did, "", src, 1, 0, nil))
		if v != nil {
			return v
		}
		if st.Err == nil {
			return Viol(prop, "split-after-terminal", "CreateSplit", did, "a new split was accepted on a diamond that is already done/canceled")
		}
		// ... and so is the re-run of a split that was registered but never completed
		doneNow, _ := readDoneSplits(d.VMet, "r1", did)
		isDone := map[string]bool{}
		for _, s := range doneNow {
			isDone[s.ID] = true
		}
		for _, sid := range splitIDs {
			if isDone[sid] || d.VMet.Peek(model.GetArchivePathToInitialSplit("r1", did, sid)) == nil {
				continue
			}
			src := memDisk()
			_ = writeTree(src, Tree{"rerun": []byte("rerun after the diamond ended")})
			rt, v := doOp(prop, w, w.Client("late-rerun-"+tail4(sid)), "split-rerun-late", splitAddFn(d.Stores(late), "r1", did, sid, src, 1, 0, nil))
			if v != nil {
				return v
			}
			if rt.Err == nil {
				return Viol(prop, "split-after-terminal", "CreateSplit-rerun", sid, "the re-run of an incomplete split was accepted on a diamond that is already done/canceled")
			}
			w.Probe("terminal-refuses-rerun-of-incomplete-split")
		}
		w.Probe("terminal-refuses")
	} else {
		// still open: a done split cannot be rerun
		done, _ := readDoneSplits(d.VMet, "r1", did)
		if len(done) > 0 {
			src := memDisk()
			_ = writeTree(src, Tree{"again": []byte("again")})
			st, v := doOp(prop, w, late, "split-rerun-done", splitAddFn(d.Stores(late), "r1", did, done[0].ID, src, 1, 0, nil))
			if v != nil {
				return v
			}
			if st.Err == nil {
				return Viol(prop, "done-split-rerun", "CreateSplit", done[0].ID, "a split that is already done was run again")
			}
			w.Probe("done-split-refuses-rerun")
		}
	}
	if nBundles == 0 {
		return nil
	}
	// (d) the bundle is the merge of exactly the completed splits
	var bid string
	for _, k := range d.Meta.KeysWithPrefix("bundles/r1/") {
		if strings.HasSuffix(k, "/bundle.yaml") {
			bid = strings.Split(k, "/")[2]
		}
	}
	bundleSeq := landedSeq(w, d.Meta.Name, model.GetArchivePathToBundle("r1", bid))
	var winner *c12commit
	for _, c := range commits {
		if c.diamond != nil && c.diamond.BundleID == bid {
			winner = c
		}
	}
	if winner == nil {
		return Viol(prop, "harness", "winner", bid, "cannot attribute bundle %s to a commit operation", bid)
	}
	done, err := readDoneSplits(d.VMet, "r1", did)
	if err != nil {
		return Viol(prop, "split-store-inconsistent", "split add", did, "%v", err)
	}
	em, _, v := bundleEntryMap(prop, d, late, "r1", bid)
	if v != nil {
		return v
	}
	// which splits does the bundle contain? Decide per split from its private file.
	var must, may []*storedSplit
	for _, s := range done {
		e := landedSeq(w, d.VMet.Name, model.GetArchivePathToFinalSplit("r1", did, s.ID))
		switch {
		case e >= 0 && e < winner.invoke:
			must = append(must, s)
		case e >= 0 && e < bundleSeq:
			may = append(may, s)
		}
	}
	var included []*storedSplit
	included = append(included, must...)
	for _, s := range may {
		for _, e := range s.Entries {
			if strings.HasPrefix(e.NameWithPath, "only-") {
				if _, in := em[e.NameWithPath]; in {
					included = append(included, s)
				}
			}
		}
	}
	sort.Slice(included, func(i, j int) bool { return included[i].ID < included[j].ID })
	if cls, obj, msg := checkMerge(em, included, mode); cls != "" {
		return Viol(prop, "bundle-not-the-merge-of-completed-splits", cls, obj, "[%d splits complete before the commit started, %d completing during it] %s", len(must), len(may), msg)
	}
	// what the diamond records as its splits must be those
	if o := d.VMet.Peek(model.GetArchivePathToFinalDiamond("r1", did)); o != nil {
		var dd model.DiamondDescriptor
		if yaml.Unmarshal(o.Data, &dd) == nil && dd.State == model.DiamondDone {
			if dd.BundleID != bid {
				return Viol(prop, "diamond-records-other-bundle", "Commit", bid, "the diamond records bundle %q, the repository holds %s", dd.BundleID, bid)
			}
		}
	}
	if w.Stats.Concurrent > 0 {
		w.Probe("nontrivial")
	}
	return nil
}

package props

import (
	"bytes"
	"context"
	"fmt"
	"io"
	"sync"

	"github.com/oneconcern/datamon/pkg/cafs"
	"github.com/oneconcern/datamon/pkg/storage"
	"go.uber.org/zap"

	"verifsim/simkit"
)

var nopLog = zap.NewNop()

// leafSizes draws a leaf size; the big ones only rarely (they cost real memory bandwidth).
func drawLeaf(t *simkit.Tape, thorough bool) uint32 {
	small := []int{64, 65, 100, 127, 128, 1024, 4096, 65536}
	if thorough && t.Bool(1, 40) {
		return uint32(t.Pick(1<<20-1, 1<<20, 2<<20, 5<<20))
	}
	if t.Bool(1, 25) {
		return uint32(t.Pick(1<<20-1, 1<<20+1))
	}
	return uint32(small[t.Choose(len(small))])
}

// drawLen draws a content length around leaf boundaries (0..~6 leaves).
func drawLen(t *simkit.Tape, leaf uint32) int {
	L := int(leaf)
	maxLeaves := 6
	if L >= 1<<20 {
		maxLeaves = 3
	}
	switch t.Choose(4) {
	case 0:
		return t.Pick(0, 1, L-1, L, L+1)
	case 1:
		k := t.Range(1, maxLeaves)
		return k*L + t.Pick(-1, 0, 1)
	case 2:
		return t.Range(0, maxLeaves*L+1)
	default:
		k := t.Range(0, maxLeaves-1)
		return k*L + t.Range(0, L)
	}
}

// srcReader hands out content with a given chunking and EOF convention.
type srcReader struct {
	data      []byte
	pos       int
	chunks    []int // cyclic chunk sizes; 0 = a zero-byte read
	ci        int
	eofInline bool // deliver io.EOF together with the last bytes
}

func (s *srcReader) Read(p []byte) (int, error) {
	if s.pos >= len(s.data) {
		return 0, io.EOF
	}
	c := s.chunks[s.ci%len(s.chunks)]
	s.ci++
	if c > len(p) {
		c = len(p)
	}
	if c > len(s.data)-s.pos {
		c = len(s.data) - s.pos
	}
	copy(p, s.data[s.pos:s.pos+c])
	s.pos += c
	if s.pos >= len(s.data) && s.eofInline {
		return c, io.EOF
	}
	return c, nil
}

// drawSource builds a source reader of a style drawn from the tape and describes it.
func drawSource(t *simkit.Tape, content []byte, leaf uint32) (io.Reader, string) {
	L := int(leaf)
	switch t.Choose(4) {
	case 0:
		return bytes.NewReader(content), "one-write(bytes.Reader)"
	case 1:
		c := t.Pick(1, 7, L-1, L, L+1, 32*1024, 2*L+3)
		if c == 1 && len(content) > 20000 {
			c = 7
		}
		return &srcReader{data: content, chunks: []int{c}, eofInline: t.Bool(1, 2)}, fmt.Sprintf("fixed-chunks(%d)", c)
	case 2:
		n := t.Range(1, 6)
		cs := make([]int, n)
		for i := range cs {
			switch t.Choose(4) {
			case 0:
				cs[i] = t.Range(1, 2*L+2)
			case 1:
				cs[i] = 0
			case 2:
				cs[i] = t.Pick(L-1, L, L+1)
			default:
				cs[i] = t.Range(1, 64)
			}
		}
		allZero := true
		for _, c := range cs {
			if c != 0 {
				allZero = false
			}
		}
		if allZero {
			cs[0] = 1 + L/2
		}
		if len(content) > 20000 {
			for i := range cs {
				if cs[i] > 0 && cs[i] < 64 {
					cs[i] += 700
				}
			}
		}
		return &srcReader{data: content, chunks: cs, eofInline: t.Bool(1, 2)}, fmt.Sprintf("random-chunks%v", cs)
	default:
		// a plain reader without WriterTo that lets io.Copy use its 32 KiB buffer
		return &srcReader{data: content, chunks: []int{1 << 30}, eofInline: t.Bool(1, 2)}, "io.Copy-buffer(32KiB)"
	}
}

// plainWriter is an io.Writer that is NOT an io.WriterAt.
type plainWriter struct{ b bytes.Buffer }

func (p *plainWriter) Write(b []byte) (int, error) { return p.b.Write(b) }

// memWriterAt is an in-memory io.WriterAt + io.Writer (what localfs hands to cafs is an *os.File-like afero.File).
type memWriterAt struct {
	mu sync.Mutex
	b  []byte
}

func (m *memWriterAt) Write(p []byte) (int, error) {
	m.mu.Lock()
	defer m.mu.Unlock()
	m.b = append(m.b, p...)
	return len(p), nil
}

func (m *memWriterAt) WriteAt(p []byte, off int64) (int, error) {
	m.mu.Lock()
	defer m.mu.Unlock()
	if int(off)+len(p) > len(m.b) {
		m.b = append(m.b, make([]byte, int(off)+len(p)-len(m.b))...)
	}
	copy(m.b[off:], p)
	return len(p), nil
}

type cafsKnobs struct {
	leaf      uint32
	flushes   int
	prefetch  int
	cacheBufs int
	crc       bool
	readStyle int
	readChunk int
}

func (k cafsKnobs) String() string {
	return fmt.Sprintf("leaf=%d flushes=%d prefetch=%d cacheBufs=%d crc=%v readStyle=%d/%d", k.leaf, k.flushes, k.prefetch, k.cacheBufs, k.crc, k.readStyle, k.readChunk)
}

func drawKnobs(t *simkit.Tape, thorough bool) cafsKnobs {
	k := cafsKnobs{leaf: drawLeaf(t, thorough)}
	k.flushes = t.Pick(1, 1, 2, 3, 10, 16)
	k.prefetch = t.Pick(0, 0, 1, 2, 3)
	k.cacheBufs = t.Range(1, 8)
	k.crc = t.Bool(2, 3)
	k.readStyle = t.Choose(4)
	k.readChunk = t.Pick(1, 13, 64, 1000, 32*1024)
	return k
}

// newCafs builds a cafs.Fs over a handle.
func newCafs(h *simkit.Handle, k cafsKnobs, extra ...cafs.Option) (cafs.Fs, error) {
	hh := *h
	hh.ReadStyle, hh.ReadChunk = k.readStyle, k.readChunk
	var st storage.Store = &hh
	if !k.crc {
		st = simkit.NoCRC{Store: &hh}
	}
	opts := []cafs.Option{cafs.LeafSize(k.leaf), cafs.Backend(st), cafs.Logger(nopLog), cafs.ConcurrentFlushes(k.flushes),
		cafs.Prefetch(k.prefetch), cafs.CacheSize(k.cacheBufs * int(k.leaf))}
	opts = append(opts, extra...)
	return cafs.New(opts...)
}

var bg = context.Background()

func taskProblem(prop string, t *simkit.Task, what string) *simkit.Violation {
	if t.Panic != nil {
		return &simkit.Violation{Property: prop, Class: "panic", Discr: panicSite(t.Stack), Object: what,
			Message: fmt.Sprintf("%s panicked: %v", what, t.Panic), Stack: t.Stack}
	}
	return nil
}

// PanicViolation is installed as World.OnTaskPanic by the runner.
func PanicViolation(prop string, t *simkit.Task) *simkit.Violation {
	return taskProblem(prop, t, t.Name)
}

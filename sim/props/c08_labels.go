package props

import (
	"bytes"
	"errors"
	"fmt"
	"sort"
	"strings"

	"github.com/anishathalye/porcupine"
	"github.com/oneconcern/datamon/pkg/core"
	"github.com/oneconcern/datamon/pkg/core/status"
	"github.com/oneconcern/datamon/pkg/model"
	storagestatus "github.com/oneconcern/datamon/pkg/storage/status"

	"verifsim/refmodel"
	"verifsim/simkit"
)

func init() {
	Register(&Scenario{Prop: "C08", Name: "labels-sequential", Strict: true, Quick: 10, Thorough: 10, Run: runC08Seq})
	Register(&Scenario{Prop: "C08", Name: "labels-store-errors", Strict: true, Quick: 3, Thorough: 3, Run: runC08Err})
	Register(&Scenario{Prop: "C08", Name: "labels-concurrent", Strict: true, Quick: 6, Thorough: 8, Run: runC08Conc})
}

var validLabelNames = []string{"v1", "v1-0", "rel_x", "é", "V", "1", "x-y_z", "v", "v10", "latest"}
var hostileLabelNames = []string{"a/b", "..", "sp ace", "v1.0", "x#y", "é/ü", "label.yaml", "a/label.yaml", ".", "tab\tname", "semi;colon", "per%cent", "q?mark"}

// labelWritesOnlyItself: a label operation writes only labels/{repo}/{name}/label.yaml in the label store
// and nothing in the metadata store.
// runC08Err: a sequential program of label assignments and deletions in which an assignment may be hit by one store error on
// the write of its descriptor (the write fails before landing, or lands and reports a failure). An assignment that reports the
// error leaves the label at its previous target or at the new one; one that reports success has set it. Whatever happened, the
// label never resolves to anything else, and listings agree with what getting the label returns.
func runC08Err(rc *RunCtx) *simkit.Violation {
	const prop = "C08"
	w := rc.W
	t := w.W
	d := newDM(rc)
	d.VMetPlain = t.Bool(1, 2) // a label store without checksummed writes (a local-directory context) or with them (GCS)
	d.VMet.Versioned = !d.VMetPlain && t.Bool(1, 2)
	r := "r1"
	seedRepo(d, r)
	var bundles []string
	for k := 0; k < 3; k++ {
		bundles = append(bundles, seedBundle(d, t, r, true, 1))
	}
	cl := w.Client("c")
	st := d.Stores(cl)
	labels := map[string]string{}
	names := []string{"v1", "latest", "rel-2"}
	var trace []string
	steps := t.Range(2, 8)
	for i := 0; i < steps; i++ {
		name := names[t.Choose(len(names))]
		prev, hadPrev := labels[name]
		if hadPrev && t.Bool(1, 5) {
			tk, v := doOp(prop, w, cl, "delete", func() (interface{}, error) { return nil, core.DeleteLabel(r, st, name) })
			if v != nil {
				return v
			}
			if tk.Err != nil {
				return Viol(prop, "delete-failed", "DeleteLabel", name, "deleting the live label %q failed without any fault: %v", name, tk.Err)
			}
			delete(labels, name)
			trace = append(trace, fmt.Sprintf("delete %q", name))
			continue
		}
		id := bundles[t.Choose(len(bundles))]
		kind := simkit.FNone
		if t.Bool(2, 3) {
			kind = []simkit.Kind{simkit.FErr, simkit.FAckLost, simkit.FAckLost}[t.Choose(3)]
			w.Faults = &simkit.FaultCfg{Plan: []*simkit.Planned{{Client: cl.Name, Kind: kind, Match: func(c *simkit.Call) bool {
				return c.Op.IsWrite() && strings.Contains(c.Key, "label.yaml")
			}}}}
		}
		before := faultCount(w)
		tk, v := doOp(prop, w, cl, "set", setLabelFn(st, r, name, id))
		w.Faults = nil
		if v != nil {
			return v
		}
		hit := faultCount(w) != before
		trace = append(trace, fmt.Sprintf("set %q->%s fault=%v err=%v", name, tail4(id), hit, tk.Err != nil))
		w.Note("%s", trace[len(trace)-1])
		if tk.Err != nil && !hit {
			return Viol(prop, "set-failed", "UploadDescriptor", name, "setting the valid label %q failed without any fault: %v", name, tk.Err)
		}
		gt, v := doOp(prop, w, cl, "get", getLabelFn(st, r, name))
		if v != nil {
			return v
		}
		switch {
		case tk.Err == nil:
			if hit {
				w.Probe("set-succeeded-despite-store-error")
			}
			if gt.Err != nil {
				return Viol(prop, "accepted-name-unresolvable", "DownloadDescriptor-after-store-error", name, "label %q was set (success reported) but cannot be resolved: %v (history: %v)", name, gt.Err, trace)
			}
			if gt.Result.(string) != id {
				return Viol(prop, "label-wrong-target", "DownloadDescriptor-after-store-error", name, "label %q resolves to %q right after being set to %s (history: %v)", name, gt.Result, id, trace)
			}
			labels[name] = id
		case gt.Err != nil:
			w.Probe("set-failed-on-store-error")
			if hadPrev {
				return Viol(prop, "get-failed", "DownloadDescriptor-after-store-error", name, "an assignment of the live label %q failed on a store error and the label can no longer be resolved: %v (history: %v)", name, gt.Err, trace)
			}
		default:
			w.Probe("set-failed-on-store-error")
			got := gt.Result.(string)
			if got != id && !(hadPrev && got == prev) {
				return Viol(prop, "label-wrong-target", "DownloadDescriptor-after-store-error", name, "an assignment of label %q to %s failed on a store error; the label now resolves to %q, which is neither its previous target (%q) nor the new one (history: %v)", name, id, got, prev, trace)
			}
			labels[name] = got
			if got == id {
				w.Probe("failed-set-took-effect")
			}
		}
		// listings agree
		lt, v := doOp(prop, w, cl, "list", func() (interface{}, error) { return core.ListLabels(r, st, core.BatchSize(t.Pick(1, 2, 1024))) })
		if v != nil {
			return v
		}
		if lt.Err != nil {
			return Viol(prop, "list-broken", "ListLabels-after-store-error", r, "ListLabels fails: %v (history: %v)", lt.Err, trace)
		}
		got := map[string]string{}
		for _, l := range lt.Result.([]model.LabelDescriptor) {
			got[l.Name] = l.BundleID
		}
		for _, n := range sortedKeys(labels) {
			if g, ok := got[n]; !ok {
				return Viol(prop, "label-not-listed", "ListLabels-after-store-error", n, "live label %q is not listed (history: %v)", n, trace)
			} else if g != labels[n] {
				return Viol(prop, "label-wrong-target", "ListLabels-after-store-error", n, "label %q is listed with bundle %q, it resolves to %s (history: %v)", n, g, labels[n], trace)
			}
		}
		for _, n := range sortedKeys(got) {
			if _, ok := labels[n]; !ok {
				return Viol(prop, "label-foreign", "ListLabels-after-store-error", n, "ListLabels shows %q which is not a live label (history: %v)", n, trace)
			}
		}
	}
	if fired(w) {
		w.Probe("nontrivial")
	}
	return nil
}

func labelWritesOnlyItself(prop string, d *DM, current func() (string, string)) func(*simkit.Event) *simkit.Violation {
	return func(ev *simkit.Event) *simkit.Violation {
		if !ev.Op.IsWrite() {
			return nil
		}
		repo, name := current()
		if repo == "" {
			return nil
		}
		if ev.Bucket == d.VMet.Name && ev.Key == model.GetArchivePathToLabel(repo, name) {
			return nil
		}
		return Viol(prop, "label-op-wrote-elsewhere", ev.Op.String(), ev.Key, "label operation on %s/%q issued %s on %s/%s", repo, name, ev.Op, ev.Bucket, ev.Key)
	}
}

func runC08Seq(rc *RunCtx) *simkit.Violation {
	const prop = "C08"
	w := rc.W
	t := w.W
	d := newDM(rc)
	d.VMet.Versioned = t.Bool(1, 2)
	d.CRC = t.Bool(2, 3)
	names := []string{"a", "a-b", "ab", "r1"}
	perm := t.Perm(len(names))
	nRepos := t.Range(2, 3)
	var repos []string
	bundles := map[string][]string{}
	for i := 0; i < nRepos; i++ {
		r := names[perm[i]]
		repos = append(repos, r)
		seedRepo(d, r)
		for k := 0; k < t.Range(1, 3); k++ {
			bundles[r] = append(bundles[r], seedBundle(d, t, r, true, 1))
		}
	}
	sort.Strings(repos)
	labels := map[string]map[string]string{}
	for _, r := range repos {
		labels[r] = map[string]string{}
	}
	cl := w.Client("c")
	st := d.Stores(cl)
	curRepo, curName := "", ""
	w.OnEvent(labelWritesOnlyItself(prop, d, func() (string, string) { return curRepo, curName }))
	metaBefore := d.Meta.Snapshot()

	checkAll := func(after string) *simkit.Violation {
		curRepo = ""
		for _, r := range repos {
			lt, v := doOp(prop, w, cl, "list "+r, func() (interface{}, error) {
				if t.Bool(1, 3) {
					var ls []model.LabelDescriptor
					err := core.ListLabelsApply(r, st, func(x model.LabelDescriptor) error { ls = append(ls, x); return nil }, core.BatchSize(t.Pick(1, 2, 3, 1024)), core.ConcurrentList(t.Pick(1, 4)))
					return ls, err
				}
				return core.ListLabels(r, st, core.BatchSize(t.Pick(1, 2, 3, 1024)), core.ConcurrentList(t.Pick(1, 4)))
			})
			if v != nil {
				return v
			}
			if lt.Err != nil {
				return Viol(prop, "list-broken", "ListLabels", r, "after %s, ListLabels(%s) fails: %v", after, r, lt.Err)
			}
			got := map[string]string{}
			for _, l := range lt.Result.([]model.LabelDescriptor) {
				if _, dup := got[l.Name]; dup {
					return Viol(prop, "listed-twice", "ListLabels", l.Name, "label %q listed twice in %s", l.Name, r)
				}
				got[l.Name] = l.BundleID
			}
			for _, n := range sortedKeys(labels[r]) {
				if g, ok := got[n]; !ok {
					return Viol(prop, "label-not-listed", "ListLabels", n, "after %s, live label %q of %s is not listed (listed: %v)", after, n, r, sortedKeys(got))
				} else if g != labels[r][n] {
					return Viol(prop, "label-wrong-target", "ListLabels", n, "after %s, label %q of %s is listed with bundle %s, last assignment was %s", after, n, r, g, labels[r][n])
				}
			}
			for _, n := range sortedKeys(got) {
				if _, ok := labels[r][n]; !ok {
					return Viol(prop, "label-foreign", "ListLabels", n, "after %s, ListLabels(%s) shows %q which is not a live label of that repository", after, r, n)
				}
			}
		}
		// setting labels never changes bundles
		now := d.Meta.Snapshot()
		if len(now) != len(metaBefore) {
			return Viol(prop, "bundle-changed", "meta", "", "after %s the metadata store has %d objects, had %d", after, len(now), len(metaBefore))
		}
		for k, v := range metaBefore {
			if !bytes.Equal(now[k], v) {
				return Viol(prop, "bundle-changed", "meta", k, "after %s, %s changed", after, k)
			}
		}
		return nil
	}

	prebuilt := map[string]*core.Label{}
	for _, n := range validLabelNames {
		prebuilt[n] = core.NewLabel(core.LabelDescriptor(model.NewLabelDescriptor(model.LabelContributor(contributor), model.LabelName(n))))
	}
	steps := t.Range(2, 10)
	// one run in three is a long-lived process: every assignment goes through the Label values built at the start, on
	// one repository, two label names and few bundles (the same assignment is made again after a delete or a move)
	reuse := t.Bool(1, 3)
	if reuse {
		steps = t.Range(4, 12)
		w.Probe("long-lived-label-values")
	}
	var trace []string
	assigned := map[string]map[string][]string{} // repo -> label -> every assignment since the label was (re)created
	for _, r := range repos {
		assigned[r] = map[string][]string{}
	}
	for i := 0; i < steps; i++ {
		r := repos[t.Choose(len(repos))]
		var name string
		hostile := t.Bool(1, 4)
		if hostile {
			name = hostileLabelNames[t.Choose(len(hostileLabelNames))]
		} else {
			name = validLabelNames[t.Choose(len(validLabelNames))]
		}
		if len(labels[r]) > 0 && t.Bool(1, 3) {
			ks := sortedKeys(labels[r])
			name = ks[t.Choose(len(ks))] // act on an existing label
		}
		if reuse {
			r, hostile = repos[0], false
			name = validLabelNames[t.Choose(2)]
		}
		switch t.Pick(0, 0, 0, 1, 2, 3, 4) {
		case 4: // the versions of a label (a versioned label store keeps every assignment since the label was created)
			curRepo = ""
			tk, v := doOp(prop, w, cl, "versions", func() (interface{}, error) {
				b := core.NewBundle(core.Repo(r), core.ContextStores(st), core.Logger(nopLog))
				l := core.NewLabel(core.LabelDescriptor(model.NewLabelDescriptor(model.LabelName(name))))
				lds, err := l.DownloadDescriptorVersions(bg, b, true)
				var ids []string
				for _, ld := range lds {
					ids = append(ids, ld.BundleID)
				}
				return ids, err
			})
			if v != nil {
				return v
			}
			_, live := labels[r][name]
			switch {
			case !live && tk.Err == nil:
				return Viol(prop, "deleted-label-resolves", "DownloadDescriptorVersions", name, "label %q of %s is not live but has versions %v (history: %v)", name, r, tk.Result, trace)
			case live && d.VMet.Versioned && tk.Err != nil:
				return Viol(prop, "get-failed", "DownloadDescriptorVersions", name, "listing the versions of the live label %q of %s failed: %v (history: %v)", name, r, tk.Err, trace)
			case live && d.VMet.Versioned:
				got := tk.Result.([]string)
				if strings.Join(got, ",") != strings.Join(assigned[r][name], ",") {
					return Viol(prop, "label-wrong-target", "DownloadDescriptorVersions", name, "the versions of label %q of %s are %v, it was assigned %v since it was created (history: %v)", name, r, got, assigned[r][name], trace)
				}
				w.Probe("label-versions-listed")
			}
			continue
		case 0: // set
			id := bundles[r][t.Choose(len(bundles[r]))]
			if reuse {
				id = bundles[r][t.Choose(min(2, len(bundles[r])))]
			}
			curRepo, curName = r, name
			setFn := setLabelFn(st, r, name, id)
			if prebuilt[name] != nil && (reuse || t.Bool(1, 3)) {
				// the assignment goes through a Label value built when the run started (and possibly used before)
				setFn = setLabelWithFn(prebuilt[name], st, r, id)
				w.Probe("set-through-prebuilt-label")
			}
			tk, v := doOp(prop, w, cl, "set", setFn)
			if v != nil {
				return v
			}
			trace = append(trace, fmt.Sprintf("set %s/%q->%s err=%v", r, name, id[len(id)-4:], tk.Err != nil))
			if tk.Err == nil {
				labels[r][name] = id
				assigned[r][name] = append(assigned[r][name], id)
				if hostile {
					w.Probe("hostile-name-accepted")
				}
			} else if !hostile {
				return Viol(prop, "set-failed", "UploadDescriptor", name, "setting the valid label %q failed: %v", name, tk.Err)
			} else {
				w.Probe("hostile-name-rejected")
			}
		case 1: // delete
			curRepo, curName = r, name
			tk, v := doOp(prop, w, cl, "delete", func() (interface{}, error) { return nil, core.DeleteLabel(r, st, name) })
			if v != nil {
				return v
			}
			_, live := labels[r][name]
			trace = append(trace, fmt.Sprintf("delete %s/%q live=%v err=%v", r, name, live, tk.Err != nil))
			if live && tk.Err != nil {
				return Viol(prop, "delete-failed", "DeleteLabel", name, "deleting the live label %q failed: %v", name, tk.Err)
			}
			delete(labels[r], name)
			delete(assigned[r], name)
		case 2: // get
			curRepo = ""
			tk, v := doOp(prop, w, cl, "get", getLabelFn(st, r, name))
			if v != nil {
				return v
			}
			want, live := labels[r][name]
			switch {
			case live && tk.Err != nil:
				return Viol(prop, "get-failed", "DownloadDescriptor", name, "getting the live label %q of %s failed: %v (history: %v)", name, r, tk.Err, trace)
			case live && tk.Result.(string) != want:
				return Viol(prop, "label-wrong-target", "DownloadDescriptor", name, "label %q of %s resolves to %s, last assignment was %s (history: %v)", name, r, tk.Result, want, trace)
			case !live && tk.Err == nil:
				return Viol(prop, "deleted-label-resolves", "DownloadDescriptor", name, "label %q of %s is not live but resolves to %v (history: %v)", name, r, tk.Result, trace)
			}
			continue
		default: // prefix-filtered listing
			curRepo = ""
			ks := append([]string{"v", "v1", "x", "é", "r"}, sortedKeys(labels[r])...)
			pfx := ks[t.Choose(len(ks))]
			tk, v := doOp(prop, w, cl, "list-prefix", func() (interface{}, error) {
				return core.ListLabels(r, st, core.WithLabelPrefix(pfx), core.BatchSize(t.Pick(1, 2, 1024)))
			})
			if v != nil {
				return v
			}
			if tk.Err != nil {
				return Viol(prop, "list-broken", "ListLabels-prefix", r, "prefix-filtered ListLabels(%s, %q) fails: %v (history: %v)", r, pfx, tk.Err, trace)
			}
			var got, want []string
			for _, l := range tk.Result.([]model.LabelDescriptor) {
				got = append(got, l.Name)
			}
			for _, n := range sortedKeys(labels[r]) {
				if strings.HasPrefix(n, pfx) {
					want = append(want, n)
				}
			}
			sort.Strings(got)
			if strings.Join(got, "\x00") != strings.Join(want, "\x00") {
				return Viol(prop, "prefix-list-wrong", "ListLabels-prefix", pfx, "ListLabels(%s, prefix %q) = %q, want %q", r, pfx, got, want)
			}
			continue
		}
		w.Note("%s", trace[len(trace)-1])
		// after every mutation: the label resolves (or not) and all listings agree with the model
		curRepo = ""
		gt, v := doOp(prop, w, cl, "get", getLabelFn(st, r, name))
		if v != nil {
			return v
		}
		if want, live := labels[r][name]; live {
			if gt.Err != nil {
				return Viol(prop, "accepted-name-unresolvable", "DownloadDescriptor", name, "label %q was accepted but cannot be resolved: %v", name, gt.Err)
			}
			if gt.Result.(string) != want {
				return Viol(prop, "label-wrong-target", "DownloadDescriptor", name, "label %q resolves to %s right after being set to %s", name, gt.Result, want)
			}
		} else if gt.Err == nil {
			return Viol(prop, "deleted-label-resolves", "DownloadDescriptor", name, "label %q still resolves to %v after %s", name, gt.Result, trace[len(trace)-1])
		} else if !errors.Is(gt.Err, status.ErrNotFound) {
			w.Probe("get-missing-other-error")
		}
		if v := checkAll(trace[len(trace)-1]); v != nil {
			return v
		}
	}
	w.Probe("nontrivial")
	return nil
}

// runC08Conc: several clients set / get / delete the same label concurrently; the recorded history must be
// linearizable as a register with delete.
func runC08Conc(rc *RunCtx) *simkit.Violation {
	const prop = "C08"
	w := rc.W
	t := w.W
	d := newDM(rc)
	d.VMet.Versioned = t.Bool(1, 2)
	seedRepo(d, "r1")
	var ids []string
	for i := 0; i < 12; i++ {
		ids = append(ids, seedBundle(d, t, "r1", true, 0))
	}
	nClients := t.Range(2, 3)
	type rec struct {
		client int
		in     refmodel.RegOp
		out    refmodel.RegOp
		call   int64
		ret    int64
	}
	var hist []rec
	next := 0
	var tasks []*simkit.Task
	for c := 0; c < nClients; c++ {
		c := c
		cl := w.Client(fmt.Sprintf("c%d", c))
		st := d.Stores(cl)
		nOps := t.Range(1, 4)
		type op struct {
			kind string
			val  string
		}
		var ops []op
		for i := 0; i < nOps; i++ {
			switch t.Pick(0, 0, 1, 1, 2, 3) {
			case 0:
				ops = append(ops, op{"set", ids[next%len(ids)]})
				next++
			case 1:
				ops = append(ops, op{"get", ""})
			case 3:
				ops = append(ops, op{"list", ""})
			default:
				ops = append(ops, op{"del", ""})
			}
		}
		w.Note("c%d: %v", c, ops)
		var recs []rec
		tasks = append(tasks, w.Go(cl, "ops", func() (interface{}, error) {
			for _, o := range ops {
				r := rec{client: c, in: refmodel.RegOp{Kind: o.kind, Value: o.val}}
				r.call = int64(2*w.SeqNow() + 1)
				switch o.kind {
				case "set":
					_, err := setLabelFn(st, "r1", "shared", o.val)()
					if err != nil {
						return nil, fmt.Errorf("set failed: %w", err)
					}
				case "get":
					v, err := getLabelFn(st, "r1", "shared")()
					// a delete landing between the existence check and the read surfaces the store's
					// own "object doesn't exist": also "not found"
					if err != nil && !errors.Is(err, status.ErrNotFound) && !errors.Is(err, storagestatus.ErrNotExists) {
						return nil, fmt.Errorf("get failed: %w", err)
					}
					if err == nil {
						r.out.Value = v.(string)
					}
				case "del":
					err := core.DeleteLabel("r1", st, "shared")
					r.out.OK = err == nil
				case "list":
					// a listing that succeeds while the label is being set / deleted is a read of the label: it shows it
					// bound to a bundle it was assigned, or does not show it (a listing that fails tells nothing)
					ls, err := core.ListLabels("r1", st, core.BatchSize(1024))
					if err != nil {
						continue
					}
					r.in.Kind = "get"
					for _, l := range ls {
						if l.Name != "shared" {
							continue
						}
						if l.BundleID == "" {
							w.Fail(Viol(prop, "label-wrong-target", "ListLabels-concurrent", "shared", "a listing concurrent with set/delete of label %q shows it bound to no bundle (%+v)", l.Name, l))
							return nil, nil
						}
						r.out.Value = l.BundleID
					}
					w.Probe("concurrent-listing")
				}
				r.ret = int64(2 * w.SeqNow())
				if r.ret <= r.call {
					r.ret = r.call + 1
				}
				recs = append(recs, r)
			}
			return recs, nil
		}))
	}
	if v := w.Run(); v != nil {
		if v.Property == "" {
			v.Property = prop
		}
		return v
	}
	for _, tk := range tasks {
		if pv := taskProblem(prop, tk, "label ops"); pv != nil {
			return pv
		}
		if tk.Err != nil {
			return Viol(prop, "op-failed", "concurrent", "shared", "a fault-free label operation failed under concurrency: %v", tk.Err)
		}
		hist = append(hist, tk.Result.([]rec)...)
	}
	var pops []porcupine.Operation
	for _, r := range hist {
		pops = append(pops, porcupine.Operation{ClientId: r.client, Input: r.in, Call: r.call, Output: r.out, Return: r.ret})
	}
	switch refmodel.CheckRegister(pops) {
	case "illegal":
		var lines []string
		for _, r := range hist {
			lines = append(lines, fmt.Sprintf("c%d %s(%s)->%s/%v [%d,%d]", r.client, r.in.Kind, tail4(r.in.Value), tail4(r.out.Value), r.out.OK, r.call, r.ret))
		}
		return Viol(prop, "not-linearizable", "register", "shared", "history of concurrent set/get/delete on one label is not linearizable: %v", lines)
	case "unknown":
		w.Probe("porcupine-unknown")
	default:
		w.Probe("linearizable")
	}
	if w.Stats.Concurrent > 0 {
		w.Probe("nontrivial")
	}
	return nil
}

func tail4(s string) string {
	if len(s) > 4 {
		return s[len(s)-4:]
	}
	return s
}

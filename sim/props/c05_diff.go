package props

import (
	"context"
	"fmt"
	"sort"
	"strings"

	"github.com/oneconcern/datamon/pkg/core"
	"github.com/spf13/afero"

	"verifsim/refmodel"
	"verifsim/simkit"
)

func init() {
	Register(&Scenario{Prop: "C05", Name: "diff-update", Strict: false, Quick: 30, Thorough: 20, Run: func(rc *RunCtx) *simkit.Violation { return runC05(rc, false) }})
	Register(&Scenario{Prop: "C05", Name: "diff-update-faulty", Strict: false, Quick: 12, Thorough: 10, Run: func(rc *RunCtx) *simkit.Violation { return runC05(rc, true) }})
	// bundles with several file lists on either side (the metadata of the replaced bundle has more / fewer index files)
	Register(&Scenario{Prop: "C05", Name: "known-path-type-switch", Strict: false, Quick: 1, Thorough: 1, Run: func(rc *RunCtx) *simkit.Violation { return runC05switch(rc) }})
	Register(&Scenario{Prop: "C05", Name: "diff-update-multi-index", Strict: false, Quick: 2, Thorough: 3, Run: func(rc *RunCtx) *simkit.Violation { return runC05big(rc) }})
}

var c05big, c05switch bool

func runC05switch(rc *RunCtx) *simkit.Violation {
	c05switch = true
	// real directories: afero's MemMapFs lets a file be created under a path that is a regular file and removes
	// non-empty directories, which turns this failure into a silently wrong tree that no real file system produces
	osDiskRoot, osDiskSeq = rc.Dir, 0
	defer func() { c05switch, osDiskRoot = false, "" }()
	return runC05(rc, false)
}

func runC05big(rc *RunCtx) *simkit.Violation {
	c05big = true
	defer func() { c05big = false }()
	return runC05(rc, false)
}

func runC05(rc *RunCtx, faulty bool) *simkit.Violation {
	const prop = "C05"
	w := rc.W
	t := w.W
	d := newDM(rc)
	leaf := uint32(t.Pick(64, 100, 4096))
	setup := w.Client("setup")
	r := &mRepo{Name: "r1"}
	if v := createRepo(prop, d, setup, "r1"); v != nil {
		return v
	}
	// two trees with controlled overlap
	a := drawTree(t, t.Pick(0, 1, 3, 6, 10), leaf, "a")
	b := Tree{}
	relation := t.Choose(5)
	if c05switch {
		// known finding: a path changes between file and directory from A to B
		a = Tree{"keep": []byte("kept"), "p": []byte("file in A"), "q/x": []byte("under a directory in A")}
		b = Tree{"keep": []byte("kept"), "p/y": []byte("under a directory in B"), "q": []byte("file in B")}
		switch t.Choose(3) {
		case 0: // only file -> directory
			delete(a, "q/x")
			delete(b, "q")
		case 1: // only directory -> file
			delete(a, "p")
			delete(b, "p/y")
		}
		relation = 9
	}
	if c05big {
		// tiny files, many of them: 1..3 file lists per bundle
		leaf = 64
		a = Tree{}
		na := t.Pick(900, 1400, 2050)
		for i := 0; i < na; i++ {
			a[fmt.Sprintf("d%d/f%04d", i%7, i)] = []byte(fmt.Sprintf("content %d", i%50))
		}
		relation = 2
	}
	switch relation {
	case 0: // identical
		for p, c := range a {
			b[p] = c
		}
	case 9:
	case 1: // disjoint
		for p, c := range drawTree(t, t.Pick(0, 1, 4), leaf, "b") {
			// a path that is a directory on one side and a file on the other is the known finding
			// C05/update-failed/path-type-switch (directed scenario below), kept out of the open search
			if !conflictsWithTree(a, p) {
				b[p] = c
			}
		}
	default: // mixed: kept, changed, removed, renamed, added
		capB := 1 << 30
		if c05big && len(a) > 1000 && t.Bool(1, 3) {
			capB = 900 // the target bundle has fewer file lists than the one it replaces
		}
		for _, p := range a.paths() {
			if len(b) >= capB {
				break
			}
			switch t.Choose(5) {
			case 0, 1:
				b[p] = a[p]
			case 2:
				if len(a[p]) > 0 && t.Bool(1, 2) {
					// same path, same size, other content
					c := append([]byte(nil), a[p]...)
					c[t.Choose(len(c))] ^= 0x5a
					b[p] = c
				} else {
					b[p] = append([]byte("changed "), a[p]...)
				}
			case 3: // removed
			case 4: // renamed
				b[p+".renamed"] = a[p]
			}
		}
		for p, c := range drawTree(t, t.Range(0, 3), leaf, "n") {
			if !conflictsWithTree(b, p) && !conflictsWithTree(a, p) {
				b[p] = c
			}
		}
	}
	ba, v := addBundle(prop, d, setup, r, a, leaf, 4)
	if v != nil {
		return v
	}
	bb, v := addBundle(prop, d, setup, r, b, leaf, 4)
	if v != nil {
		return v
	}
	cl := w.Client("local")
	inner := memDisk()
	_ = inner.MkdirAll(".", 0o755)
	disk := w.NewDisk("local-disk", cl, inner)
	disk.Scheduled = false
	// download A
	_, pfn := d.downloadFn(d.Stores(cl), "r1", ba.ID, disk, downloadOpts{concDown: t.Pick(1, 3, 10)})
	pt, v := doOp(prop, w, cl, "publish-A", pfn)
	if v != nil {
		return v
	}
	if pt.Err != nil {
		return Viol(prop, "harness", "Publish", ba.ID, "%v", pt.Err)
	}
	if c05big && len(b) > 0 && t.Bool(2, 3) {
		// files are deleted from the repository (every bundle of it) after the local copy was made: the target bundle's
		// file lists are shortened in place, no longer densely packed
		ps := b.paths()
		del := []string{ps[0]}
		if t.Bool(1, 2) {
			del = append(del, ps[t.Choose(len(ps))])
		}
		dt, v := doOp(prop, w, setup, "delete-files", func() (interface{}, error) { return nil, core.DeleteEntriesFromRepo("r1", d.Stores(setup), del) })
		if v != nil {
			return v
		}
		if dt.Err != nil {
			return Viol(prop, "harness", "DeleteEntriesFromRepo", "r1", "fault-free delete-files failed while building the history: %v", dt.Err)
		}
		for _, p := range del {
			delete(b, p)
		}
		w.Probe("target-bundle-shortened-by-delete-files")
		if len(b)+len(del) > 1000 {
			w.Probe("target-of-2+-file-lists-shortened-in-its-first-list")
		}
	}
	// model diff
	type de struct{ typ, name string }
	var want []de
	for _, p := range a.paths() {
		if c, ok := b[p]; !ok {
			want = append(want, de{"D", p})
		} else if refmodel.RootHex(c, leaf) != refmodel.RootHex(a[p], leaf) {
			want = append(want, de{"U", p})
		}
	}
	for _, p := range b.paths() {
		if _, ok := a[p]; !ok {
			want = append(want, de{"A", p})
		}
	}
	sort.Slice(want, func(i, j int) bool { return want[i].name < want[j].name })
	w.Note("A: %d files, B: %d files (relation %d, leaf %d): %d differences; faulty=%v", len(a), len(b), relation, leaf, len(want), faulty)
	// Diff(local copy of A, remote B)
	dt, v := doOp(prop, w, cl, "diff", func() (interface{}, error) {
		local := core.NewBundle(core.ConsumableStore(localStore(disk)), core.Logger(nopLog))
		remote := core.NewBundle(core.Repo("r1"), core.ContextStores(d.Stores(cl)), core.BundleID(bb.ID), core.Logger(nopLog), core.ConcurrentFilelistDownloads(t.Pick(1, 10)))
		return core.Diff(bg, local, remote)
	})
	if v != nil {
		return v
	}
	if dt.Err != nil {
		return Viol(prop, "diff-failed", "Diff", "", "fault-free Diff failed: %v", dt.Err)
	}
	var got []de
	for _, e := range dt.Result.(core.BundleDiff).Entries {
		got = append(got, de{e.Type.String(), e.Name})
	}
	sort.Slice(got, func(i, j int) bool {
		return got[i].name < got[j].name || (got[i].name == got[j].name && got[i].typ < got[j].typ)
	})
	if fmt.Sprint(got) != fmt.Sprint(want) {
		return Viol(prop, "diff-wrong", "Diff", "", "Diff reports %v, the bundles differ by %v", got, want)
	}
	// Update the local copy A -> B, the disk being a scheduling (and, in the faulty configuration, fault) point
	disk.Scheduled = true
	if faulty {
		w.Faults = &simkit.FaultCfg{Err: 40, Torn: 30, Budget: t.Range(1, 2), Eligible: func(c *simkit.Call) bool {
			return c.Client == cl && (c.Disk != nil || c.Op == simkit.OpGet)
		}}
	}
	// (faulty configuration, one run in three) the caller's context is cancelled when a tape-chosen call of the update
	// lands: the update may give up and say so, or carry on; if it reports success the directory is the target bundle
	uctx := bg
	if faulty && t.Bool(1, 3) {
		w.Faults = nil
		ctx, cancel := context.WithCancel(bg)
		defer cancel()
		uctx = ctx
		at, n, armed := t.Pick(0, 1, 2, 3, 5, 8, 13, 21, 34), 0, true
		w.OnEvent(func(e *simkit.Event) *simkit.Violation {
			if armed && e.Client == cl.Name {
				if n == at {
					armed = false
					cancel()
					w.Stats.Faults["F-CANCEL"]++
				}
				n++
			}
			return nil
		})
	}
	ut, v := doOp(prop, w, cl, "update", func() (interface{}, error) {
		local := core.NewBundle(core.ConsumableStore(localStore(disk)), core.Logger(nopLog))
		remote := core.NewBundle(core.Repo("r1"), core.ContextStores(d.Stores(cl)), core.BundleID(bb.ID), core.Logger(nopLog), core.ConcurrentFileDownloads(t.Pick(1, 2, 10)))
		return nil, core.Update(uctx, remote, local)
	})
	w.Faults = nil
	disk.Scheduled = false
	if v != nil {
		return v
	}
	retried := false
	if ut.Err != nil && faulty && fired(w) {
		// the update failed under faults: the user runs it again (no fault this time); if that run reports success the
		// directory must be the target bundle, whatever the failed run left behind
		w.Probe("update-failed-under-faults")
		rt, v := doOp(prop, w, cl, "update-retry", func() (interface{}, error) {
			local := core.NewBundle(core.ConsumableStore(localStore(disk)), core.Logger(nopLog))
			remote := core.NewBundle(core.Repo("r1"), core.ContextStores(d.Stores(cl)), core.BundleID(bb.ID), core.Logger(nopLog), core.ConcurrentFileDownloads(t.Pick(1, 2, 10)))
			return nil, core.Update(bg, remote, local)
		})
		if v != nil {
			return v
		}
		if rt.Err != nil {
			w.Probe("update-retry-failed-too")
			return nil
		}
		w.Probe("update-retried-after-failure")
		ut, retried = rt, true
	}
	if ut.Err != nil {
		if c05switch {
			return Viol(prop, "update-failed", "path-type-switch", "", "fault-free Update failed where a path is a file in one bundle and a directory in the other: %v", ut.Err)
		}
		return Viol(prop, "update-failed", "Update", "", "fault-free Update failed: %v", ut.Err)
	}
	if w.Stats.Concurrent > 0 || fired(w) {
		w.Probe("nontrivial")
	}
	// a fresh download of B
	fresh := memDisk()
	_, ffn := d.downloadFn(d.Stores(cl), "r1", bb.ID, fresh, downloadOpts{concDown: 3})
	ft, v := doOp(prop, w, cl, "publish-B", ffn)
	if v != nil {
		return v
	}
	if ft.Err != nil {
		return Viol(prop, "harness", "Publish", bb.ID, "%v", ft.Err)
	}
	gotT, err := readTree(inner)
	if err != nil {
		return Viol(prop, "harness", "readTree", "", "%v", err)
	}
	wantT, _ := readTree(fresh)
	if df := diffTrees(wantT, gotT); df != "" {
		cls := "update-differs"
		if strings.Contains(df, ".datamon/") {
			cls = "update-metadata-differs"
		}
		if retried {
			return Viol(prop, cls, "Update-retry", bb.ID, "an Update(A->B) failed under a fault, its fault-free re-run reported success, but the directory differs from a fresh download of B: %s", df)
		}
		return Viol(prop, cls, "Update", bb.ID, "after Update(A->B) the directory differs from a fresh download of B: %s", df)
	}
	return nil
}

func fired(w *simkit.World) bool { return faultCount(w) > 0 }

// faultCount is the number of faults (stalls apart) injected so far
func faultCount(w *simkit.World) int {
	n := 0
	for k, v := range w.Stats.Faults {
		if k != "F-STALL" {
			n += v
		}
	}
	return n
}

var _ afero.Fs

package props

import (
	"bytes"
	"fmt"
	"sort"
	"strings"

	context2 "github.com/oneconcern/datamon/pkg/context"
	"github.com/oneconcern/datamon/pkg/core"
	"github.com/oneconcern/datamon/pkg/model"
	"github.com/oneconcern/datamon/pkg/storage/localfs"
	"github.com/spf13/afero"
	"gopkg.in/yaml.v2"

	"verifsim/simkit"
)

func init() {
	Register(&Scenario{Prop: "C09", Name: "concurrent-create", Strict: true, Quick: 6, Thorough: 6, Run: runC09Create})
	Register(&Scenario{Prop: "C09", Name: "rename-vs-create", Strict: true, Quick: 3, Thorough: 4, Run: runC09RenameVsCreate})
	Register(&Scenario{Prop: "C09", Name: "delete-repo", Strict: true, Quick: 4, Thorough: 4, Run: func(rc *RunCtx) *simkit.Violation { return runC09Ops(rc, "delete") }})
	Register(&Scenario{Prop: "C09", Name: "rename-repo", Strict: true, Quick: 4, Thorough: 4, Run: func(rc *RunCtx) *simkit.Violation { return runC09Ops(rc, "rename") }})
	// one store error at a tape-chosen call of the delete / the rename (half of the time the read of a bundle descriptor): the
	// operation may fail and say so; one that reports success has done all of it and nothing else
	Register(&Scenario{Prop: "C09", Name: "delete-repo-one-store-error", Strict: false, Quick: 2, Thorough: 3, Run: func(rc *RunCtx) *simkit.Violation {
		c09StoreErr = true
		defer func() { c09StoreErr = false }()
		return runC09Ops(rc, "delete")
	}})
	Register(&Scenario{Prop: "C09", Name: "rename-repo-one-store-error", Strict: false, Quick: 2, Thorough: 3, Run: func(rc *RunCtx) *simkit.Violation {
		c09StoreErr = true
		defer func() { c09StoreErr = false }()
		return runC09Ops(rc, "rename")
	}})
	Register(&Scenario{Prop: "C09", Name: "delete-files", Strict: true, Quick: 4, Thorough: 4, Run: func(rc *RunCtx) *simkit.Violation { return runC09Ops(rc, "delete-files") }})
	Register(&Scenario{Prop: "C09", Name: "delete-files-multi-index", Strict: false, Quick: 0, Thorough: 1, Run: func(rc *RunCtx) *simkit.Violation { return runC09Ops(rc, "delete-files-big") }})
}

// runC09RenameVsCreate: a rename to a new name races one or two creators of that name, under sampled orders of their store
// calls. The new name goes to exactly one of them. When a creator wins, the new repository is the creator's - empty, with the
// creator's descriptor - and the repository that was to be renamed is untouched; when the rename wins, the new name holds the
// bundles and labels of the old one, which is gone. Nothing else changes in either case.
func runC09RenameVsCreate(rc *RunCtx) *simkit.Violation {
	const prop = "C09"
	w := rc.W
	t := w.W
	d := newDM(rc)
	d.CRC = t.Bool(1, 2)
	old := []string{"alpha", "a"}[t.Choose(2)]
	name := []string{"a-b", "alpha-x", "gamma"}[t.Choose(3)]
	seedRepo(d, old)
	seedRepo(d, "a0")
	seedBundle(d, t, "a0", true, 1)
	var ids []string
	for i, n := 0, t.Range(1, 4); i < n; i++ {
		ids = append(ids, seedBundle(d, t, old, true, t.Pick(1, 1, 2)))
	}
	nl := t.Range(0, 2)
	for i := 0; i < nl; i++ {
		ld := model.NewLabelDescriptor(model.LabelName(fmt.Sprintf("v%d", i)), model.LabelContributor(contributor))
		ld.BundleID = ids[t.Choose(len(ids))]
		d.VMet.Seed(model.GetArchivePathToLabel(old, ld.Name), mustYAML(ld))
	}
	before := snapshotExcept(d)
	k := t.Range(1, 2)
	ren := w.Client("renamer")
	rst := d.Stores(ren)
	rt := w.Go(ren, "rename-repo", func() (interface{}, error) { return nil, core.RenameRepo(old, name, rst) })
	var creators []*simkit.Task
	for i := 0; i < k; i++ {
		i := i
		cl := w.Client(fmt.Sprintf("creator%d", i))
		st := d.Stores(cl)
		creators = append(creators, w.Go(cl, "create", func() (interface{}, error) {
			return nil, core.CreateRepo(model.RepoDescriptor{Name: name, Description: fmt.Sprintf("created by %d", i), Contributor: contributor}, st)
		}))
	}
	// the rename makes many store calls, a creator one: so that the creators' writes land anywhere in the rename (and not
	// nearly always before its first call) the rename runs ahead for a tape-chosen number of calls, then the tape decides
	ahead := t.Pick(0, 1, 2, 3, 4, 5, 6, 8, 10, 14, 20, 30)
	w.Prefer = func(parked []*simkit.Call) int {
		if ren.Calls >= ahead {
			return -1
		}
		for i, c := range parked {
			if c.Client == ren {
				return i
			}
		}
		return -1
	}
	defer func() { w.Prefer = nil }()
	w.Note("RenameRepo(%s -> %s) (%d bundles, %d labels) racing %d CreateRepo(%s); the rename runs %d calls ahead", old, name, len(ids), nl, k, name, ahead)
	if v := w.Run(); v != nil {
		v.Property = prop
		return v
	}
	if pv := taskProblem(prop, rt, "RenameRepo"); pv != nil {
		return pv
	}
	winners := []string{}
	if rt.Err == nil {
		winners = append(winners, "rename")
	}
	for i, tk := range creators {
		if pv := taskProblem(prop, tk, "CreateRepo"); pv != nil {
			return pv
		}
		if tk.Err == nil {
			winners = append(winners, fmt.Sprintf("creator%d", i))
		}
	}
	if len(winners) != 1 {
		return Viol(prop, "create-not-exclusive", "RenameRepo-vs-CreateRepo", name, "a rename to %q and %d creators of %q ran concurrently: %d of them report success (%v)", name, k, name, len(winners), winners)
	}
	if w.Stats.Concurrent > 0 {
		w.Probe("nontrivial")
	}
	after := snapshotExcept(d)
	if winners[0] != "rename" {
		w.Probe("rename-lost-to-creator")
		// the new repository is the creator's: its descriptor and nothing else; everything else is as before
		var rd model.RepoDescriptor
		o := d.Meta.Peek(model.GetArchivePathToRepoDescriptor(name))
		if o == nil {
			return Viol(prop, "create-lost", "RenameRepo-vs-CreateRepo", name, "%s reported success but the repository descriptor does not exist", winners[0])
		}
		if err := yaml.Unmarshal(o.Data, &rd); err != nil || rd.Description != "created by "+strings.TrimPrefix(winners[0], "creator") {
			return Viol(prop, "create-wrong-descriptor", "RenameRepo-vs-CreateRepo", name, "%s won but the stored descriptor says %q (err %v)", winners[0], rd.Description, err)
		}
		delete(after, "meta:"+model.GetArchivePathToRepoDescriptor(name))
		if df := diffSnap(before, after); df != "" {
			return Viol(prop, "other-repo-touched", "RenameRepo-vs-CreateRepo", name, "RenameRepo(%s->%s) lost the name to %s and failed (%v), yet it %s", old, name, winners[0], rt.Err, df)
		}
		return nil
	}
	w.Probe("rename-won")
	for _, b := range []*simkit.Backend{d.Meta, d.VMet} {
		for _, p := range []string{"bundles/", "labels/", "repos/"} {
			if left := b.KeysWithPrefix(p + old + "/"); len(left) > 0 {
				return Viol(prop, "rename-left-old", "RenameRepo-vs-CreateRepo", left[0], "after RenameRepo, %d objects remain under the old name (first: %s)", len(left), left[0])
			}
		}
	}
	// every object of the old repository is now under the new name, byte for byte (the repository descriptor carries the new name)
	for _, key := range sortedKeys(before) {
		for _, p := range []string{"meta:bundles/", "vmeta:labels/"} {
			if strings.HasPrefix(key, p+old+"/") {
				nk := p + name + "/" + strings.TrimPrefix(key, p+old+"/")
				if got, ok := after[nk]; !ok {
					return Viol(prop, "rename-lost-object", "RenameRepo-vs-CreateRepo", nk, "after RenameRepo(%s->%s), %s has no counterpart %s", old, name, key, nk)
				} else if strings.HasSuffix(key, ".yaml") && strings.Contains(key, "bundle-files-") && !bytes.Equal(got, before[key]) {
					return Viol(prop, "rename-changed-files", "RenameRepo-vs-CreateRepo", nk, "after RenameRepo(%s->%s), the file list %s differs from %s", old, name, nk, key)
				}
			}
		}
	}
	for key := range after {
		if _, ok := before[key]; ok {
			continue
		}
		if !strings.HasPrefix(key, "meta:bundles/"+name+"/") && !strings.HasPrefix(key, "vmeta:labels/"+name+"/") && !strings.HasPrefix(key, "meta:repos/"+name+"/") {
			return Viol(prop, "other-repo-touched", "RenameRepo-vs-CreateRepo", key, "RenameRepo(%s->%s) created %s", old, name, key)
		}
	}
	for key := range before {
		if _, ok := after[key]; ok && !bytes.Equal(before[key], after[key]) {
			return Viol(prop, "other-repo-touched", "RenameRepo-vs-CreateRepo", key, "RenameRepo(%s->%s) modified %s", old, name, key)
		}
		if _, ok := after[key]; !ok && !strings.Contains(key, "/"+old+"/") {
			return Viol(prop, "other-repo-touched", "RenameRepo-vs-CreateRepo", key, "RenameRepo(%s->%s) deleted %s", old, name, key)
		}
	}
	return nil
}

func runC09Create(rc *RunCtx) *simkit.Violation {
	const prop = "C09"
	w := rc.W
	t := w.W
	d := newDM(rc)
	d.CRC = t.Bool(1, 2)
	k := t.Range(2, 5)
	name := []string{"a", "a-b", "ab"}[t.Choose(3)]
	// neighbours whose names are prefixes / extensions of the contested one
	seedRepo(d, "a-b-c")
	seedRepo(d, "a0")
	// store flavour: the GCS-contract simstore, or datamon's own local file system backend on a shared disk where
	// every file-system call of every creator is a scheduling point (create-if-absent = O_EXCL, other error texts)
	local := t.Bool(1, 3)
	var sharedDisk afero.Fs
	if local {
		sharedDisk = afero.NewBasePathFs(afero.NewMemMapFs(), "/meta")
		_ = sharedDisk.MkdirAll(".", 0o755)
		for _, n := range []string{"a-b-c", "a0"} {
			_ = sharedDisk.MkdirAll("repos/"+n, 0o755)
			_ = afero.WriteFile(sharedDisk, model.GetArchivePathToRepoDescriptor(n), mustYAML(model.RepoDescriptor{Name: n, Description: "seeded", Contributor: contributor}), 0o644)
		}
		w.Probe("localfs-metadata-store")
	}
	storesOf := func(cl *simkit.Client) context2.Stores {
		if !local {
			return d.Stores(cl)
		}
		disk := w.NewDisk("disk-"+cl.Name, cl, sharedDisk)
		meta := localfs.New(disk, localfs.WithLogger(nopLog), localfs.WithRetry(t.Bool(1, 2)))
		return context2.NewStores(cl.Store(d.Wal), cl.Store(d.RLog), cl.Store(d.Blob), meta, cl.Store(d.VMet))
	}
	var tasks []*simkit.Task
	for i := 0; i < k; i++ {
		i := i
		cl := w.Client(fmt.Sprintf("creator%d", i))
		st := storesOf(cl)
		tasks = append(tasks, w.Go(cl, "create", func() (interface{}, error) {
			return nil, core.CreateRepo(model.RepoDescriptor{Name: name, Description: fmt.Sprintf("created by %d", i), Contributor: contributor}, st)
		}))
	}
	w.Note("%d concurrent CreateRepo(%q) on %s", k, name, map[bool]string{true: "localfs", false: "simstore(GCS)"}[local])
	if v := w.Run(); v != nil {
		v.Property = prop
		return v
	}
	winners := []int{}
	for i, tk := range tasks {
		if pv := taskProblem(prop, tk, "CreateRepo"); pv != nil {
			return pv
		}
		if tk.Err == nil {
			winners = append(winners, i)
		}
	}
	if len(winners) != 1 {
		return Viol(prop, "create-not-exclusive", "CreateRepo", name, "%d of %d concurrent creators of %q report success (%v)", len(winners), k, name, winners)
	}
	var stored []byte
	if local {
		stored, _ = afero.ReadFile(sharedDisk, model.GetArchivePathToRepoDescriptor(name))
	} else if o := d.Meta.Peek(model.GetArchivePathToRepoDescriptor(name)); o != nil {
		stored = o.Data
	}
	if stored == nil {
		return Viol(prop, "create-lost", "CreateRepo", name, "a creator reported success but the repository descriptor does not exist")
	}
	var rd model.RepoDescriptor
	if err := yaml.Unmarshal(stored, &rd); err != nil || rd.Description != fmt.Sprintf("created by %d", winners[0]) {
		return Viol(prop, "create-wrong-descriptor", "CreateRepo", name, "creator %d won but the stored descriptor says %q (err %v)", winners[0], rd.Description, err)
	}
	// which creator's write landed first = the order explored
	w.Probe(fmt.Sprintf("winner-%d-of-%d", winners[0], k))
	if w.Stats.Concurrent > 0 {
		w.Probe("nontrivial")
	}
	// the name is now taken for later creators as well
	late := w.Client("late")
	lst := storesOf(late)
	lt, v := doOp(prop, w, late, "create-late", func() (interface{}, error) {
		return nil, core.CreateRepo(model.RepoDescriptor{Name: name, Description: "late", Contributor: contributor}, lst)
	})
	if v != nil {
		return v
	}
	if lt.Err == nil {
		return Viol(prop, "create-not-exclusive", "CreateRepo-late", name, "creating %q again succeeded", name)
	}
	// ... and the repository is still the winner's
	if local {
		stored, _ = afero.ReadFile(sharedDisk, model.GetArchivePathToRepoDescriptor(name))
	} else if o := d.Meta.Peek(model.GetArchivePathToRepoDescriptor(name)); o != nil {
		stored = o.Data
	} else {
		stored = nil
	}
	if err := yaml.Unmarshal(stored, &rd); stored == nil || err != nil || rd.Description != fmt.Sprintf("created by %d", winners[0]) {
		return Viol(prop, "create-lost", "CreateRepo-late", name, "after a refused late create the repository of creator %d is gone or altered (descriptor %q)", winners[0], rd.Description)
	}
	return nil
}

// snapshotExcept copies every object of the backends whose key does not belong to repo.
func snapshotExcept(d *DM, repos ...string) map[string][]byte {
	out := map[string][]byte{}
	skip := func(k string) bool {
		for _, r := range repos {
			for _, p := range []string{"bundles/" + r + "/", "labels/" + r + "/", "repos/" + r + "/", "diamonds/" + r + "/"} {
				if strings.HasPrefix(k, p) {
					return true
				}
			}
		}
		return false
	}
	for _, b := range []*simkit.Backend{d.Meta, d.VMet, d.Blob} {
		for k, v := range b.Snapshot() {
			if !skip(k) {
				out[b.Name+":"+k] = v
			}
		}
	}
	return out
}

func diffSnap(before, after map[string][]byte) string {
	for _, k := range sortedKeys(before) {
		a, ok := after[k]
		if !ok {
			return "deleted " + k
		}
		if !bytes.Equal(a, before[k]) {
			return "modified " + k
		}
	}
	for _, k := range sortedKeys(after) {
		if _, ok := before[k]; !ok {
			return "created " + k
		}
	}
	return ""
}

var c09StoreErr bool

// c09PlanStoreErr places one store error in the actor's coming operation.
func c09PlanStoreErr(w *simkit.World, t *simkit.Tape, actor *simkit.Client) {
	if !c09StoreErr {
		return
	}
	pl := &simkit.Planned{Client: actor.Name, Kind: simkit.FErr, Any: true, Nth: actor.Calls + t.Range(0, 30)}
	if t.Bool(1, 2) {
		nth, n := t.Range(0, 3), 0
		pl = &simkit.Planned{Client: actor.Name, Kind: simkit.FErr, Match: func(c *simkit.Call) bool {
			if c.Op != simkit.OpGet || !strings.HasSuffix(c.Key, "/bundle.yaml") {
				return false
			}
			n++
			return n-1 == nth
		}}
	}
	w.Faults = &simkit.FaultCfg{Plan: []*simkit.Planned{pl}}
}

// c09FailedDelete is the key whose Delete met the injected store error ("" if none): DeleteRepo and DeleteBundle go on
// after a failed deletion by design (they are given "ignore errors"), so that one object may stay behind - an observation
// of DESIGN.md, not the silent skipping of a whole bundle that the configuration is after.
func c09FailedDelete(w *simkit.World) string {
	for _, e := range w.History {
		if e.Fault == simkit.FErr && e.Op == simkit.OpDelete {
			return e.Key
		}
	}
	return ""
}

func runC09Ops(rc *RunCtx, op string) *simkit.Violation {
	const prop = "C09"
	w := rc.W
	t := w.W
	d := newDM(rc)
	d.CRC = t.Bool(2, 3)
	leaf := uint32(t.Pick(64, 100))
	names := []string{"a", "a-b", "ab", "a-b-c"}
	perm := t.Perm(len(names))
	nRepos := t.Range(2, 3)
	setup := w.Client("setup")
	repos := map[string]*mRepo{}
	var order []string
	shared := drawTree(t, 2, leaf, "shared") // content present in several repositories
	for i := 0; i < nRepos; i++ {
		name := names[perm[i]]
		r := &mRepo{Name: name, Labels: map[string]string{}}
		if v := createRepo(prop, d, setup, name); v != nil {
			return v
		}
		nb := t.Range(1, 3)
		for b := 0; b < nb; b++ {
			n := t.Range(1, 4)
			if op == "delete-files-big" && i == 0 && b == 0 {
				n = 1001
			}
			tree := drawTree(t, n, leaf, fmt.Sprintf("%s%d", name, b))
			for _, p := range shared.paths() {
				if t.Bool(1, 2) && !conflictsWithTree(tree, p) {
					tree[p] = shared[p]
				}
			}
			// the same path in several bundles (delete-files must hit all of them)
			tree["common/file"] = []byte(fmt.Sprintf("common of %s bundle %d", name, b%2))
			if _, v := addBundle(prop, d, setup, r, tree, leaf, t.Pick(1, 4, 20)); v != nil {
				return v
			}
			if t.Bool(1, 2) {
				if v := addLabel(prop, d, setup, r, fmt.Sprintf("l%d", t.Choose(3)), r.Bundles[t.Choose(len(r.Bundles))].ID); v != nil {
					return v
				}
			}
		}
		repos[name] = r
		order = append(order, name)
	}
	sort.Strings(order)
	target := repos[names[perm[0]]]
	actor := w.Client("actor")
	st := d.Stores(actor)
	// a reader of another repository working at the same time
	bystander := order[0]
	if bystander == target.Name {
		bystander = order[1]
	}
	withReader := t.Bool(1, 2) && op != "delete-files-big"
	var readerV chan *simkit.Violation
	if withReader {
		readerV = make(chan *simkit.Violation, 1)
		rdc := w.Client("reader")
		w.Go(rdc, "observe-bystander", func() (interface{}, error) {
			// (runs as a task: cannot use doOp; plain calls under the same scheduler)
			bs, err := core.ListBundles(bystander, d.Stores(rdc))
			if err != nil || len(bs) != len(repos[bystander].Bundles) {
				readerV <- Viol(prop, "bystander-disturbed", op, bystander, "while %s runs on %s, ListBundles(%s) returns %d bundles, err=%v (want %d)", op, target.Name, bystander, len(bs), err, len(repos[bystander].Bundles))
				return nil, nil
			}
			readerV <- nil
			return nil, nil
		})
	}
	switch op {
	case "delete":
		before := snapshotExcept(d, target.Name)
		w.Note("repos %v; DeleteRepo(%s) with %d bundles %d labels", order, target.Name, len(target.Bundles), len(target.Labels))
		c09PlanStoreErr(w, t, actor)
		tk := w.Go(actor, "delete-repo", func() (interface{}, error) { return nil, core.DeleteRepo(target.Name, st) })
		if v := w.Run(); v != nil {
			v.Property = prop
			return v
		}
		if pv := taskProblem(prop, tk, "DeleteRepo"); pv != nil {
			return pv
		}
		w.Faults = nil
		if c09StoreErr && tk.Err != nil && fired(w) {
			w.Probe("op-failed-on-store-error")
			return nil
		}
		if c09StoreErr && fired(w) {
			w.Probe("op-succeeded-despite-store-error")
		}
		if tk.Err != nil {
			return Viol(prop, "op-failed", "DeleteRepo", target.Name, "fault-free DeleteRepo failed: %v", tk.Err)
		}
		for _, b := range []*simkit.Backend{d.Meta, d.VMet} {
			for _, p := range []string{"bundles/", "labels/", "repos/"} {
				if left := b.KeysWithPrefix(p + target.Name + "/"); len(left) > 0 {
					if c09StoreErr && len(left) == 1 && left[0] == c09FailedDelete(w) {
						w.Probe("failed-delete-ignored")
						return nil
					}
					return Viol(prop, "delete-incomplete", "DeleteRepo", left[0], "after DeleteRepo(%s), %d objects remain under %s%s/ (first: %s)", target.Name, len(left), p, target.Name, left[0])
				}
			}
		}
		if df := diffSnap(before, snapshotExcept(d, target.Name)); df != "" {
			return Viol(prop, "other-repo-touched", "DeleteRepo", df, "DeleteRepo(%s) %s", target.Name, df)
		}
		delete(repos, target.Name)
	case "rename":
		newName := "renamed-" + target.Name
		if t.Bool(1, 2) {
			newName = target.Name + "-x" // a name the old one is a prefix of
		}
		before := snapshotExcept(d, target.Name, newName)
		w.Note("repos %v; RenameRepo(%s -> %s)", order, target.Name, newName)
		c09PlanStoreErr(w, t, actor)
		tk := w.Go(actor, "rename-repo", func() (interface{}, error) { return nil, core.RenameRepo(target.Name, newName, st) })
		if v := w.Run(); v != nil {
			v.Property = prop
			return v
		}
		if pv := taskProblem(prop, tk, "RenameRepo"); pv != nil {
			return pv
		}
		w.Faults = nil
		if c09StoreErr && tk.Err != nil && fired(w) {
			w.Probe("op-failed-on-store-error")
			return nil
		}
		if c09StoreErr && fired(w) {
			w.Probe("op-succeeded-despite-store-error")
		}
		if tk.Err != nil {
			return Viol(prop, "op-failed", "RenameRepo", target.Name, "fault-free RenameRepo failed: %v", tk.Err)
		}
		for _, b := range []*simkit.Backend{d.Meta, d.VMet} {
			for _, p := range []string{"bundles/", "labels/", "repos/"} {
				if left := b.KeysWithPrefix(p + target.Name + "/"); len(left) > 0 {
					if c09StoreErr && len(left) == 1 && left[0] == c09FailedDelete(w) {
						w.Probe("failed-delete-ignored")
						return nil
					}
					return Viol(prop, "rename-left-old", "RenameRepo", left[0], "after RenameRepo, %d objects remain under the old name (first: %s)", len(left), left[0])
				}
			}
		}
		if df := diffSnap(before, snapshotExcept(d, target.Name, newName)); df != "" {
			return Viol(prop, "other-repo-touched", "RenameRepo", df, "RenameRepo(%s->%s) %s", target.Name, newName, df)
		}
		delete(repos, target.Name)
		target.Name = newName
		repos[newName] = target
	case "delete-files", "delete-files-big":
		before := snapshotExcept(d, target.Name)
		var del []string
		all := map[string]bool{}
		for _, b := range target.Bundles {
			for p := range b.Tree {
				all[p] = true
			}
		}
		for _, p := range sortedKeys(all) {
			if t.Bool(1, 3) {
				del = append(del, p)
			}
		}
		if t.Bool(2, 3) {
			del = append(del, "common/file")
		}
		del = append(del, "not/in/any/bundle")
		w.Note("repos %v; DeleteEntriesFromRepo(%s, %d paths)", order, target.Name, len(del))
		labelsBefore := d.VMet.Snapshot()
		tk := w.Go(actor, "delete-files", func() (interface{}, error) { return nil, core.DeleteEntriesFromRepo(target.Name, st, del) })
		if v := w.Run(); v != nil {
			v.Property = prop
			return v
		}
		if pv := taskProblem(prop, tk, "DeleteEntriesFromRepo"); pv != nil {
			return pv
		}
		if tk.Err != nil {
			return Viol(prop, "op-failed", "DeleteEntriesFromRepo", target.Name, "fault-free DeleteEntriesFromRepo failed: %v", tk.Err)
		}
		if df := diffSnap(before, snapshotExcept(d, target.Name)); df != "" {
			return Viol(prop, "other-repo-touched", "DeleteEntriesFromRepo", df, "DeleteEntriesFromRepo(%s) %s", target.Name, df)
		}
		if df := diffSnap(labelsBefore, d.VMet.Snapshot()); df != "" {
			return Viol(prop, "labels-touched", "DeleteEntriesFromRepo", df, "DeleteEntriesFromRepo(%s) %s", target.Name, df)
		}
		for _, b := range target.Bundles {
			for _, p := range del {
				delete(b.Tree, p)
			}
		}
	}
	if withReader {
		if v := <-readerV; v != nil {
			return v
		}
	}
	w.Probe("nontrivial")
	// every remaining repository is exactly its model
	for _, name := range sortedKeys(repos) {
		if v := observe(prop, d, w.Client("obs-"+name), repos[name], nil, t, true); v != nil {
			v.Message = fmt.Sprintf("[after %s on %s, checking %s] %s", op, target.Name, name, v.Message)
			return v
		}
	}
	return nil
}

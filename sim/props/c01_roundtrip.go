package props

import (
	"bytes"
	"fmt"
	"io"

	"github.com/oneconcern/datamon/pkg/cafs"

	"verifsim/refmodel"
	"verifsim/simkit"
)

func init() {
	Register(&Scenario{Prop: "C01", Name: "roundtrip", Strict: true, Quick: 10, Thorough: 10, Run: func(rc *RunCtx) *simkit.Violation { return runC01(rc, false) }})
	// the same programs with the in-memory yield points of pkg/cafs switched on (a reader holding a pinned leaf buffer
	// can be overtaken by other readers' cache insertions and evictions)
	Register(&Scenario{Prop: "C01", Name: "roundtrip-yields", Strict: true, Quick: 4, Thorough: 5, Cfg: simkit.Config{Yields: true}, Run: func(rc *RunCtx) *simkit.Violation { return runC01(rc, false) }})
	Register(&Scenario{Prop: "C01", Name: "roundtrip-faulty-gets", Strict: true, Quick: 3, Thorough: 4, Run: func(rc *RunCtx) *simkit.Violation { return runC01(rc, true) }})
}

// readProgram runs a tape-drawn program of reads against one stored object and checks every
// returned byte against the source. faulty relaxes "must succeed" to "may fail, never wrong".
func readProgram(prop string, w *simkit.World, fs cafs.Fs, key cafs.Key, content []byte, leaf uint32, ops [][3]int, faulty bool, who string) *simkit.Violation {
	L := int(leaf)
	for _, op := range ops {
		switch op[0] {
		case 0: // sequential Read with mixed buffer sizes
			r, err := fs.Get(bg, key)
			if err != nil {
				if faulty {
					continue
				}
				return Viol(prop, "read-error", "Get", who, "Get of a stored object failed: %v", err)
			}
			bufs := []int{1, 2, L - 1, L, L + 1, 2 * L, 7, 1000}
			pos, zero, iter := 0, 0, 0
			for {
				sz := bufs[(op[1]+iter*op[2])%len(bufs)]
				if op[2] == 0 {
					sz = bufs[op[1]%len(bufs)]
				}
				if sz < 1 {
					sz = 1
				}
				if len(content) > 4000 && sz < 64 {
					sz += 509
				}
				iter++
				buf := make([]byte, sz)
				n, err := r.Read(buf)
				if n < 0 || n > sz {
					return Viol(prop, "read-count", "Read", who, "Read returned n=%d for a %d-byte buffer", n, sz)
				}
				if pos+n > len(content) || !bytes.Equal(buf[:n], content[pos:pos+n]) {
					return Viol(prop, "wrong-bytes", "Read", who, "sequential Read (buffer %d) at offset %d returned %d bytes that differ from the stored content (len %d, leaf %d)", sz, pos, n, len(content), L)
				}
				pos += n
				if err == io.EOF {
					break
				}
				if err != nil {
					if faulty {
						pos = -1
						break
					}
					return Viol(prop, "read-error", "Read", who, "sequential Read failed at offset %d: %v", pos, err)
				}
				if n == 0 {
					zero++
					if zero > 3 {
						return Viol(prop, "no-progress", "Read", who, "Read returned (0,nil) %d times in a row at offset %d of %d", zero, pos, len(content))
					}
				} else {
					zero = 0
				}
			}
			_ = r.Close()
			if pos >= 0 && pos != len(content) {
				return Viol(prop, "short-read", "Read", who, "sequential Read ended with io.EOF after %d of %d bytes (leaf %d)", pos, len(content), L)
			}
			w.Probe("seq-read")
		case 1: // ReadAt
			r, err := fs.GetAt(bg, key)
			if err != nil {
				if faulty {
					continue
				}
				return Viol(prop, "read-error", "GetAt", who, "GetAt of a stored object failed: %v", err)
			}
			off, ln := op[1], op[2]
			buf := make([]byte, ln)
			n, err := r.ReadAt(buf, int64(off))
			if err != nil && err != io.EOF {
				if faulty {
					continue
				}
				return Viol(prop, "read-error", "ReadAt", who, "ReadAt(len %d, off %d) on %d bytes failed: %v", ln, off, len(content), err)
			}
			want := 0
			if off < len(content) {
				want = min(ln, len(content)-off)
			}
			if n != want {
				return Viol(prop, "readat-count", "ReadAt", who, "ReadAt(len %d, off %d) on %d bytes (leaf %d) returned n=%d, want %d", ln, off, len(content), L, n, want)
			}
			if n > 0 && !bytes.Equal(buf[:n], content[off:off+n]) {
				return Viol(prop, "wrong-bytes", "ReadAt", who, "ReadAt(len %d, off %d) returned bytes that differ from the stored content (len %d, leaf %d)", ln, off, len(content), L)
			}
			if off >= len(content) {
				w.Probe("readat-past-eof")
			}
			w.Probe("readat")
		case 2: // WriteTo a plain writer
			r, err := fs.Get(bg, key)
			if err != nil {
				if faulty {
					continue
				}
				return Viol(prop, "read-error", "Get", who, "Get failed: %v", err)
			}
			pw := &plainWriter{}
			n, err := r.(io.WriterTo).WriteTo(pw)
			if err != nil {
				if faulty {
					continue
				}
				return Viol(prop, "read-error", "WriteTo", who, "WriteTo(plain writer) failed: %v", err)
			}
			if int(n) != len(content) || !bytes.Equal(pw.b.Bytes(), content) {
				return Viol(prop, "wrong-bytes", "WriteTo", who, "WriteTo(plain writer) delivered %d bytes (reported %d), stored %d; equal=%v", pw.b.Len(), n, len(content), bytes.Equal(pw.b.Bytes(), content))
			}
			w.Probe("writeto-plain")
		case 3: // WriteTo an io.WriterAt
			r, err := fs.Get(bg, key)
			if err != nil {
				if faulty {
					continue
				}
				return Viol(prop, "read-error", "Get", who, "Get failed: %v", err)
			}
			mw := &memWriterAt{}
			n, err := r.(io.WriterTo).WriteTo(mw)
			if err != nil {
				if faulty {
					continue
				}
				return Viol(prop, "read-error", "WriteTo", who, "WriteTo(WriterAt) failed: %v", err)
			}
			if int(n) != len(content) || !bytes.Equal(mw.b, content) {
				return Viol(prop, "wrong-bytes", "WriteTo-WriterAt", who, "WriteTo(io.WriterAt) delivered %d bytes (reported %d), stored %d; equal=%v", len(mw.b), n, len(content), bytes.Equal(mw.b, content))
			}
			w.Probe("writeto-writerat")
		case 4: // several ReadAt calls on ONE reader (io.ReaderAt: its cache / prefetch bookkeeping persists between calls)
			r, err := fs.GetAt(bg, key)
			if err != nil {
				if faulty {
					continue
				}
				return Viol(prop, "read-error", "GetAt", who, "GetAt of a stored object failed: %v", err)
			}
			x := uint64(op[1])*2654435761 + 12345
			for j := 0; j < op[2]; j++ {
				x = x*6364136223846793005 + 1442695040888963407
				var off, ln int
				switch (x >> 60) % 4 {
				case 0:
					off = int((x >> 20) % uint64(len(content)+L+2))
				case 1:
					off = int((x>>20)%7)*L + int((x>>40)%3) - 1
				case 2:
					off = len(content) - int((x>>20)%uint64(L+1))
				default:
					off = int((x >> 20) % uint64(len(content)+1))
				}
				if off < 0 {
					off = 0
				}
				lens := []int{0, 1, L - 1, L, L + 1, 2*L + 1, int((x>>8)%uint64(3*L)) + 1}
				ln = lens[(x>>4)%uint64(len(lens))]
				buf := make([]byte, ln)
				n, err := r.ReadAt(buf, int64(off))
				if err != nil && err != io.EOF {
					if faulty {
						break
					}
					return Viol(prop, "read-error", "ReadAt-session", who, "call %d on one reader: ReadAt(len %d, off %d) on %d bytes failed: %v", j, ln, off, len(content), err)
				}
				want := 0
				if off < len(content) {
					want = min(ln, len(content)-off)
				}
				if n != want {
					return Viol(prop, "readat-count", "ReadAt-session", who, "call %d on one reader: ReadAt(len %d, off %d) on %d bytes (leaf %d) returned n=%d, want %d", j, ln, off, len(content), L, n, want)
				}
				if n > 0 && !bytes.Equal(buf[:n], content[off:off+n]) {
					return Viol(prop, "wrong-bytes", "ReadAt-session", who, "call %d on one reader: ReadAt(len %d, off %d) returned bytes that differ from the stored content (len %d, leaf %d)", j, ln, off, len(content), L)
				}
			}
			w.Probe("readat-session")
		case 5: // a sequential reader that pauses in mid-stream while random-access reads go through the same cafs
			// (the leaf cache and the buffer pool are shared by all readers of one Fs)
			r, err := fs.Get(bg, key)
			if err != nil {
				if faulty {
					continue
				}
				return Viol(prop, "read-error", "Get", who, "Get of a stored object failed: %v", err)
			}
			x := uint64(op[1])*2654435761 + 99991
			pos, zero, failed := 0, 0, false
			for step := 0; ; step++ {
				x = x*6364136223846793005 + 1442695040888963407
				szs := []int{1, L / 2, L - 1, L, L + 1, 3, L/3 + 1}
				sz := max(1, szs[(x>>8)%uint64(len(szs))])
				if len(content) > 4000 && sz < 64 {
					sz += 509
				}
				buf := make([]byte, sz)
				n, err := r.Read(buf)
				if n < 0 || n > sz || pos+n > len(content) || !bytes.Equal(buf[:n], content[pos:pos+n]) {
					return Viol(prop, "wrong-bytes", "Read-interleaved", who, "sequential Read (buffer %d) at offset %d, interleaved with ReadAt calls on the same cafs, returned %d bytes that differ from the stored content (len %d, leaf %d)", sz, pos, n, len(content), L)
				}
				pos += n
				if err == io.EOF {
					break
				}
				if err != nil {
					if faulty {
						failed = true
						break
					}
					return Viol(prop, "read-error", "Read-interleaved", who, "sequential Read failed at offset %d: %v", pos, err)
				}
				if n == 0 {
					if zero++; zero > 3 {
						return Viol(prop, "no-progress", "Read-interleaved", who, "Read returned (0,nil) %d times in a row at offset %d of %d", zero, pos, len(content))
					}
				} else {
					zero = 0
				}
				// between two sequential reads: op[2] random-access reads, each on a fresh reader of the same cafs
				for j := 0; j < op[2] && len(content) > 0; j++ {
					x = x*6364136223846793005 + 1442695040888963407
					off := int((x >> 16) % uint64(len(content)))
					if (x>>4)%3 == 0 { // the leaf the sequential reader is in, or the next ones
						off = min(len(content)-1, (pos/L+int((x>>6)%3))*L)
					}
					ln := 1 + int((x>>40)%uint64(L+2))
					ra, err := fs.GetAt(bg, key)
					if err != nil {
						if faulty {
							continue
						}
						return Viol(prop, "read-error", "GetAt", who, "GetAt failed: %v", err)
					}
					b2 := make([]byte, ln)
					n2, err := ra.ReadAt(b2, int64(off))
					if err != nil && err != io.EOF {
						if faulty {
							continue
						}
						return Viol(prop, "read-error", "ReadAt-interleaved", who, "ReadAt(len %d, off %d) failed: %v", ln, off, err)
					}
					if want := min(ln, len(content)-off); n2 != want || !bytes.Equal(b2[:n2], content[off:off+n2]) {
						return Viol(prop, "wrong-bytes", "ReadAt-interleaved", who, "ReadAt(len %d, off %d) between sequential reads returned %d bytes (want %d) or wrong bytes (len %d, leaf %d)", ln, off, n2, want, len(content), L)
					}
				}
			}
			_ = r.Close()
			if !failed && pos != len(content) {
				return Viol(prop, "short-read", "Read-interleaved", who, "sequential Read ended with io.EOF after %d of %d bytes (leaf %d)", pos, len(content), L)
			}
			w.Probe("seq-read-interleaved-with-readat")
		}
	}
	return nil
}

func drawReadOps(t *simkit.Tape, n int, size int, leaf uint32) [][3]int {
	L := int(leaf)
	ops := make([][3]int, n)
	for i := range ops {
		k := t.Pick(0, 1, 1, 1, 2, 3, 4, 5)
		switch k {
		case 5:
			ops[i] = [3]int{5, t.Choose(1 << 16), t.Range(1, 4)}
		case 4:
			ops[i] = [3]int{4, t.Choose(1 << 16), t.Range(2, 6)}
		case 0:
			ops[i] = [3]int{0, t.Choose(8), t.Choose(4)}
		case 1:
			var off int
			switch t.Choose(5) {
			case 0:
				off = t.Range(0, size+L+5)
			case 1:
				off = max(0, size-t.Range(0, 3)) // at / just before EOF
			case 2:
				off = size + t.Range(0, 2*L) // past EOF (inside or beyond the last leaf's range)
			case 3:
				off = max(0, t.Range(0, 6)*L+t.Pick(-1, 0, 1)) // leaf boundaries
			default:
				off = t.Range(0, max(0, size-1))
			}
			ln := t.Pick(0, 1, L-1, L, L+1, 2*L+1, t.Range(1, 3*L))
			if ln < 0 {
				ln = 0
			}
			ops[i] = [3]int{1, off, ln}
		default:
			ops[i] = [3]int{k, 0, 0}
		}
	}
	return ops
}

func runC01(rc *RunCtx, faulty bool) *simkit.Violation {
	const prop = "C01"
	w := rc.W
	t := w.W
	kn := drawKnobs(t, rc.Thorough())
	size := drawLen(t, kn.leaf)
	content := t.Bytes(size)
	src, srcDesc := drawSource(t, content, kn.leaf)
	blob := w.Bucket("blob")
	cl := w.Client("c0")
	fs, err := newCafs(cl.Store(blob), kn)
	if err != nil {
		return Viol(prop, "harness", "cafs.New", "", "cafs.New: %v", err)
	}
	w.Note("cafs %s; Put %d bytes via %s", kn, size, srcDesc)

	putFault := faulty && t.Bool(1, 2)
	if putFault {
		// one write of the Put fails (before landing, or after landing with a lost acknowledgement) - most often its last
		// one, the root key; the caller puts the same content again through the same cafs until it is told it worked
		nLeaves := (size + int(kn.leaf) - 1) / int(kn.leaf)
		nth := nLeaves
		if t.Bool(1, 3) {
			nth = t.Range(0, nLeaves)
		}
		w.Faults = &simkit.FaultCfg{Plan: []*simkit.Planned{{Client: cl.Name, Nth: nth, Kind: simkit.Kind(int(simkit.FErr) + t.Choose(2))}}}
	}
	put, v := w.Do(cl, "put", func() (interface{}, error) { return fs.Put(bg, src) })
	w.Faults = nil
	if v != nil {
		v.Property = prop
		return v
	}
	if p := taskProblem(prop, put, "Put"); p != nil {
		return p
	}
	if putFault && put.Err != nil && fired(w) {
		w.Probe("put-failed-on-store-error")
		put, v = w.Do(cl, "put-again", func() (interface{}, error) { return fs.Put(bg, bytes.NewReader(content)) })
		if v != nil {
			v.Property = prop
			return v
		}
		if p := taskProblem(prop, put, "Put"); p != nil {
			return p
		}
		if put.Err == nil {
			w.Probe("put-retried-after-store-error")
		}
	}
	if put.Err != nil {
		return Viol(prop, "put-error", "Put", "", "fault-free Put of %d bytes (leaf %d, %s) failed: %v", size, kn.leaf, srcDesc, put.Err)
	}
	res := put.Result.(cafs.PutRes)
	if res.Written != int64(size) {
		return Viol(prop, "written-size", "Put", "", "Put reported Written=%d for %d bytes (leaf %d, %s)", res.Written, size, kn.leaf, srcDesc)
	}
	if want := refmodel.RootHex(content, kn.leaf); res.Key.String() != want {
		// C02 decides keys; here it only guards the harness against reading the wrong object
		return Viol(prop, "key-mismatch", "Put", "", "Put returned key %s…, model says %s…", res.Key.String()[:12], want[:12])
	}
	if size == 0 {
		w.Probe("empty-object")
	}
	if size > 0 && size%int(kn.leaf) == 0 {
		w.Probe("exact-multiple")
	}

	// readers: a fresh cafs (cold caches) or the writer's one
	rfs := fs
	if t.Bool(1, 2) {
		rfs, err = newCafs(cl.Store(blob), kn)
		if err != nil {
			return Viol(prop, "harness", "cafs.New", "", "cafs.New: %v", err)
		}
	}
	// (a run whose Put met a store error reads without faults: every read must succeed)
	faulty = faulty && !putFault
	if faulty {
		w.Faults = &simkit.FaultCfg{Err: 100, Stall: 30, Reset: 100, Budget: 4, Eligible: func(c *simkit.Call) bool { return c.Op == simkit.OpGet || c.Op == simkit.OpGetAt }}
	}
	nReaders := t.Range(1, 3)
	for i := 0; i < nReaders; i++ {
		ops := drawReadOps(t, t.Range(1, 6), size, kn.leaf)
		who := fmt.Sprintf("reader%d", i)
		w.Note("%s: %v", who, ops)
		w.Go(cl, who, func() (interface{}, error) {
			if v := readProgram(prop, w, rfs, res.Key, content, kn.leaf, ops, faulty, who); v != nil {
				w.Fail(v)
			}
			return nil, nil
		})
	}
	if v := w.Run(); v != nil {
		if v.Property == "" {
			v.Property = prop
		}
		return v
	}
	for _, tk := range w.Tasks() {
		if p := taskProblem(prop, tk, tk.Name); p != nil {
			return p
		}
	}
	return nil
}

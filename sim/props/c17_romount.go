package props

import (
	"bytes"
	"encoding/binary"
	"fmt"
	"os"
	"reflect"
	"sort"
	"strings"
	"unsafe"

	jfuse "github.com/jacobsa/fuse"
	"github.com/jacobsa/fuse/fuseops"
	"github.com/jacobsa/fuse/fuseutil"
	"github.com/oneconcern/datamon/pkg/core"
	dfuse "github.com/oneconcern/datamon/pkg/fuse"
	"github.com/oneconcern/datamon/pkg/model"
	"github.com/spf13/afero"

	"verifsim/simkit"
)

func init() {
	Register(&Scenario{Prop: "C17", Name: "ro-mount", Strict: true, Quick: 10, Thorough: 10, Run: runC17})
	// mode A with the in-memory yield points of pkg/cafs switched on: concurrent callers of a streamed mount share one
	// leaf cache; a caller holding a pinned buffer can be overtaken by the others' insertions and evictions
	Register(&Scenario{Prop: "C17", Name: "ro-mount-yields", Strict: true, Quick: 4, Thorough: 5, Cfg: simkit.Config{Yields: true}, Run: runC17})
	// mode B: the same programs from more callers, scheduler off and real parallelism, for the -race build (the
	// request paths that never reach a store call have no seam the scheduler could interleave)
	Register(&Scenario{Prop: "C17", Name: "race-stress", Strict: false, Quick: 0, Thorough: 0, NoBubble: true, Run: runC17})
}

// internalFS reaches the unexported fsInternal field of ReadOnlyFS / MutableFS: the file-system logic the FUSE
// server dispatches kernel requests to (no kernel is involved in the simulation).
func internalFS(mounted interface{}) fuseutil.FileSystem {
	v := reflect.ValueOf(mounted).Elem().FieldByName("fsInternal")
	p := reflect.NewAt(v.Type(), unsafe.Pointer(v.UnsafeAddr())).Elem().Interface()
	return p.(fuseutil.FileSystem)
}

type dirent struct {
	Inode  fuseops.InodeID
	Offset fuseops.DirOffset
	Type   uint32
	Name   string
}

// parseDirents decodes what fuseutil.WriteDirent packed into a ReadDir buffer.
func parseDirents(b []byte) ([]dirent, error) {
	var out []dirent
	for len(b) > 0 {
		if len(b) < 24 {
			return out, fmt.Errorf("truncated dirent header (%d bytes)", len(b))
		}
		ino := binary.LittleEndian.Uint64(b[0:])
		off := binary.LittleEndian.Uint64(b[8:])
		nl := int(binary.LittleEndian.Uint32(b[16:]))
		typ := binary.LittleEndian.Uint32(b[20:])
		if 24+nl > len(b) {
			return out, fmt.Errorf("truncated dirent name")
		}
		out = append(out, dirent{Inode: fuseops.InodeID(ino), Offset: fuseops.DirOffset(off), Type: typ, Name: string(b[24 : 24+nl])})
		adv := 24 + nl
		if r := adv % 8; r != 0 {
			adv += 8 - r
		}
		if adv > len(b) {
			adv = len(b)
		}
		b = b[adv:]
	}
	return out, nil
}

// treeModel is the directory tree implied by a set of files.
type treeModel struct {
	files    Tree
	children map[string]map[string]bool // dir path ("" = root) -> child names
	isDir    map[string]bool
}

func newTreeModel(files Tree) *treeModel {
	m := &treeModel{files: files, children: map[string]map[string]bool{"": {}}, isDir: map[string]bool{"": true}}
	for p := range files {
		parts := strings.Split(p, "/")
		dir := ""
		for i, part := range parts {
			if m.children[dir] == nil {
				m.children[dir] = map[string]bool{}
			}
			m.children[dir][part] = true
			full := part
			if dir != "" {
				full = dir + "/" + part
			}
			if i < len(parts)-1 {
				m.isDir[full] = true
				if m.children[full] == nil {
					m.children[full] = map[string]bool{}
				}
			}
			dir = full
		}
	}
	return m
}

func runC17(rc *RunCtx) *simkit.Violation {
	const prop = "C17"
	w := rc.W
	t := w.W
	d := newDM(rc)
	leaf := uint32(t.Pick(64, 100, 1024, 65536))
	setup := w.Client("setup")
	r := &mRepo{Name: "r1"}
	if v := createRepo(prop, d, setup, "r1"); v != nil {
		return v
	}
	tree := drawTree(t, t.Pick(0, 1, 2, 5, 9, 14), leaf, "")
	// many siblings in one directory, and deep nesting
	if t.Bool(1, 3) {
		for i := 0; i < t.Pick(20, 60); i++ {
			p := fmt.Sprintf("wide/sibling-%03d", i)
			if !conflictsWithTree(tree, p) {
				tree[p] = []byte(fmt.Sprintf("sibling %d", i))
			}
		}
	}
	if t.Bool(1, 3) && !conflictsWithTree(tree, "n1/n2/n3/n4/n5/n6/deep") {
		tree["n1/n2/n3/n4/n5/n6/deep"] = t.Bytes(3*int(leaf) + 1)
	}
	if w.Cfg.Yields {
		// several multi-leaf files: callers of the streamed mount compete for a leaf cache of one or two buffers
		for i := 0; i < 2; i++ {
			if p := fmt.Sprintf("big%d", i); !conflictsWithTree(tree, p) {
				tree[p] = t.Bytes(t.Range(2, 4)*int(leaf) + t.Range(0, int(leaf)-1))
			}
		}
	}
	mb, v := addBundle(prop, d, setup, r, tree, leaf, 4)
	if v != nil {
		return v
	}
	streamed := t.Bool(1, 2)
	yields := w.Cfg.Yields
	if yields {
		streamed = true // the yield points sit in the streaming reader of pkg/cafs
	}
	mc := w.Client("mount")
	// the pre-downloaded mount reads files back from its local disk: a real directory (MemMapFs answers reads past
	// EOF with ErrUnexpectedEOF where a real file says EOF)
	var disk afero.Fs = afero.NewBasePathFs(afero.NewOsFs(), rc.Dir)
	bd := model.NewBundleDescriptor()
	bd.LeafSize = leaf
	var fs fuseutil.FileSystem
	cacheBufs := t.Range(1, 6)
	if yields {
		cacheBufs = t.Range(1, 2)
	}
	verify := t.Bool(1, 2) // hash verification of streamed reads is an option of the mount (off by default)
	mt, v := doOp(prop, w, mc, "mount", func() (interface{}, error) {
		b := core.NewBundle(core.Repo("r1"), core.BundleID(mb.ID), core.ContextStores(d.Stores(mc)), core.ConsumableStore(localStore(disk)), core.BundleDescriptor(bd), core.Logger(nopLog), core.ConcurrentFileDownloads(t.Pick(1, 3, 10)))
		ro, err := dfuse.NewReadOnlyFS(b, dfuse.Streaming(streamed), dfuse.Logger(nopLog), dfuse.CacheSize(cacheBufs*int(leaf)), dfuse.Prefetch(t.Pick(0, 1, 2)), dfuse.VerifyHash(verify))
		if err != nil {
			return nil, err
		}
		return internalFS(ro), nil
	})
	if v != nil {
		return v
	}
	if mt.Err != nil {
		return Viol(prop, "mount-failed", "NewReadOnlyFS", mb.ID, "mounting a committed bundle (%d files, streamed=%v) failed: %v", len(tree), streamed, mt.Err)
	}
	fs = mt.Result.(fuseutil.FileSystem)
	tm := newTreeModel(tree)
	w.Note("bundle of %d files, leaf %d, streamed=%v", len(tree), leaf, streamed)
	faulty := streamed && t.Bool(1, 3)
	if faulty {
		w.Faults = &simkit.FaultCfg{Err: 80, Reset: 250, Budget: 3, Eligible: func(c *simkit.Call) bool { return c.Client == mc && c.Op == simkit.OpGet }}
	}
	nCallers, progMax := t.Range(1, 4), 10
	if yields {
		nCallers = t.Range(2, 4)
	}
	if w.Cfg.Immediate {
		nCallers, progMax = t.Range(4, 8), 40
	}
	allPaths := append([]string{}, tree.paths()...)
	for dpath := range tm.isDir {
		if dpath != "" {
			allPaths = append(allPaths, dpath)
		}
	}
	sort.Strings(allPaths)
	for c := 0; c < nCallers; c++ {
		c := c
		type step struct {
			kind int
			path string
			a, b int
		}
		var prog []step
		for i := 0; i < t.Range(2, progMax); i++ {
			st := step{kind: t.Choose(4)}
			if yields && t.Bool(2, 3) {
				st.kind = 3
				st.path = fmt.Sprintf("big%d", t.Choose(2))
			} else if len(allPaths) > 0 && t.Bool(4, 5) {
				st.path = allPaths[t.Choose(len(allPaths))]
			} else {
				st.path = []string{"nope", "d/nope", "wide/sibling-999", ""}[t.Choose(4)]
			}
			st.a, st.b = t.Choose(1<<16), t.Choose(1<<16)
			prog = append(prog, st)
		}
		w.Go(mc, fmt.Sprintf("caller%d", c), func() (interface{}, error) {
			// resolve walks a path from the root with LookUpInode, as the kernel does
			resolve := func(p string) (fuseops.InodeID, fuseops.InodeAttributes, error) {
				ino := fuseops.InodeID(fuseops.RootInodeID)
				var attr fuseops.InodeAttributes
				if p == "" {
					op := &fuseops.GetInodeAttributesOp{Inode: ino}
					err := fs.GetInodeAttributes(bg, op)
					return ino, op.Attributes, err
				}
				for _, part := range strings.Split(p, "/") {
					op := &fuseops.LookUpInodeOp{Parent: ino, Name: part}
					if err := fs.LookUpInode(bg, op); err != nil {
						return 0, attr, err
					}
					ino, attr = op.Entry.Child, op.Entry.Attributes
				}
				return ino, attr, nil
			}
			fail := func(class, discr, obj, f string, a ...interface{}) {
				w.Fail(Viol(prop, class, discr, obj, f, a...))
			}
			for _, st := range prog {
				if w.Violation() != nil {
					return nil, nil
				}
				content, isFile := tree[st.path]
				isDir := tm.isDir[st.path]
				ino, attr, err := resolve(st.path)
				switch {
				case !isFile && !isDir:
					if err == nil {
						fail("lookup-ghost", "LookUpInode", st.path, "path %q is not in the bundle but resolves to inode %d", st.path, ino)
					} else if err != jfuse.ENOENT {
						fail("lookup-errno", "LookUpInode", st.path, "lookup of a missing path returns %v, want ENOENT", err)
					}
					continue
				case err != nil:
					fail("lookup-missing", "LookUpInode", st.path, "path %q of the bundle does not resolve: %v", st.path, err)
					return nil, nil
				}
				if isDir != (attr.Mode&os.ModeDir != 0) {
					fail("attr-type", "LookUpInode", st.path, "%q: directory=%v in the bundle, mode %v on the mount", st.path, isDir, attr.Mode)
					return nil, nil
				}
				if isFile && attr.Size != uint64(len(content)) {
					fail("attr-size", "LookUpInode", st.path, "%q has %d bytes in the bundle, size %d on the mount", st.path, len(content), attr.Size)
					return nil, nil
				}
				switch st.kind {
				case 0: // attributes by inode agree with lookup; same path -> same inode
					op := &fuseops.GetInodeAttributesOp{Inode: ino}
					if err := fs.GetInodeAttributes(bg, op); err != nil {
						fail("getattr-failed", "GetInodeAttributes", st.path, "%v", err)
						return nil, nil
					}
					if op.Attributes.Size != attr.Size || op.Attributes.Mode != attr.Mode {
						fail("attr-inconsistent", "GetInodeAttributes", st.path, "lookup says size %d mode %v, getattr says %d %v", attr.Size, attr.Mode, op.Attributes.Size, op.Attributes.Mode)
						return nil, nil
					}
					ino2, _, _ := resolve(st.path)
					if ino2 != ino {
						fail("inode-unstable", "LookUpInode", st.path, "two walks to %q give inodes %d and %d", st.path, ino, ino2)
						return nil, nil
					}
				case 1, 2: // read a directory with a small buffer, resuming at every returned offset
					dir := st.path
					if isFile {
						if i := strings.LastIndex(dir, "/"); i >= 0 {
							dir = dir[:i]
						} else {
							dir = ""
						}
					}
					dino, _, err := resolve(dir)
					if err != nil {
						fail("lookup-missing", "LookUpInode", dir, "directory %q does not resolve: %v", dir, err)
						return nil, nil
					}
					if err := fs.OpenDir(bg, &fuseops.OpenDirOp{Inode: dino}); err != nil {
						fail("opendir-failed", "OpenDir", dir, "OpenDir(%q) failed: %v", dir, err)
						return nil, nil
					}
					bufSize := []int{48, 64, 100, 256, 4096}[st.a%5]
					seen := map[string]int{}
					off := fuseops.DirOffset(0)
					for iter := 0; iter < 10000; iter++ {
						op := &fuseops.ReadDirOp{Inode: dino, Offset: off, Dst: make([]byte, bufSize)}
						if err := fs.ReadDir(bg, op); err != nil {
							fail("readdir-failed", "ReadDir", dir, "ReadDir(%q, offset %d) failed: %v", dir, off, err)
							return nil, nil
						}
						if op.BytesRead == 0 {
							if bufSize < 24+256 && len(seen) < len(tm.children[dir]) {
								bufSize = 24 + 256 // the next name does not fit: a real reader retries with a bigger buffer
								continue
							}
							break
						}
						ents, perr := parseDirents(op.Dst[:op.BytesRead])
						if perr != nil {
							fail("readdir-garbled", "ReadDir", dir, "%v", perr)
							return nil, nil
						}
						for _, e := range ents {
							seen[e.Name]++
							off = e.Offset
							full := e.Name
							if dir != "" {
								full = dir + "/" + e.Name
							}
							if (e.Type == uint32(fuseutil.DT_Directory)) != tm.isDir[full] {
								fail("readdir-type", "ReadDir", full, "%q listed with type %d, directory=%v in the bundle", full, e.Type, tm.isDir[full])
								return nil, nil
							}
						}
					}
					for name, n := range seen {
						if !tm.children[dir][name] {
							fail("readdir-foreign", "ReadDir", dir+"/"+name, "directory %q lists %q which is not in the bundle", dir, name)
							return nil, nil
						}
						if n != 1 {
							fail("readdir-duplicate", "ReadDir", dir+"/"+name, "directory %q lists %q %d times over a resumed listing (buffer %d)", dir, name, n, bufSize)
							return nil, nil
						}
					}
					for name := range tm.children[dir] {
						if seen[name] == 0 {
							fail("readdir-missing", "ReadDir", dir+"/"+name, "directory %q never lists its child %q (buffer %d, %d of %d seen)", dir, name, bufSize, len(seen), len(tm.children[dir]))
							return nil, nil
						}
					}
					if err := fs.ReleaseDirHandle(bg, &fuseops.ReleaseDirHandleOp{}); err != nil {
						fail("release-failed", "ReleaseDirHandle", dir, "ReleaseDirHandle(%q) failed: %v", dir, err)
						return nil, nil
					}
					w.Probe("readdir-resumed")
				case 3: // read a file at any offset and length, also at and after EOF
					if !isFile {
						continue
					}
					off := st.a % (len(content) + int(leaf) + 2)
					if st.b%4 == 0 {
						off = len(content) - st.b%3
						if off < 0 {
							off = 0
						}
					}
					ln := []int{1, 7, int(leaf), int(leaf) + 1, 2*int(leaf) + 3, 4096}[st.b%6]
					// the kernel opens before it reads, and flushes / releases the handle afterwards
					if err := fs.OpenFile(bg, &fuseops.OpenFileOp{Inode: ino}); err != nil {
						fail("open-failed", "OpenFile", st.path, "OpenFile(%q) failed: %v", st.path, err)
						return nil, nil
					}
					op := &fuseops.ReadFileOp{Inode: ino, Offset: int64(off), Dst: make([]byte, ln)}
					err := fs.ReadFile(bg, op)
					if e2 := fs.FlushFile(bg, &fuseops.FlushFileOp{Inode: ino}); e2 != nil {
						fail("flush-failed", "FlushFile", st.path, "FlushFile(%q) failed: %v", st.path, e2)
						return nil, nil
					}
					if e2 := fs.ReleaseFileHandle(bg, &fuseops.ReleaseFileHandleOp{}); e2 != nil {
						fail("release-failed", "ReleaseFileHandle", st.path, "ReleaseFileHandle(%q) failed: %v", st.path, e2)
						return nil, nil
					}
					if st.b%5 == 0 {
						// cache pressure: the kernel forgets the inode; the next use looks it up again
						if e2 := fs.ForgetInode(bg, &fuseops.ForgetInodeOp{Inode: ino, N: 1}); e2 != nil {
							fail("forget-failed", "ForgetInode", st.path, "ForgetInode(%q) failed: %v", st.path, e2)
							return nil, nil
						}
					}
					if err != nil {
						if faulty && fired(w) { // any error is acceptable under store failures (the FUSE server maps it to EIO)
							w.Probe("read-eio-under-fault")
							continue
						}
						fail("read-failed", "ReadFile", st.path, "ReadFile(%q, off %d, len %d) on %d bytes failed: %v", st.path, off, ln, len(content), err)
						return nil, nil
					}
					var want []byte
					if off < len(content) {
						want = content[off:min(len(content), off+ln)]
					}
					if op.BytesRead != len(want) || !bytes.Equal(op.Dst[:op.BytesRead], want) {
						fail("read-wrong", "ReadFile", st.path, "ReadFile(%q, off %d, len %d) on %d bytes (leaf %d, streamed=%v) returned %d bytes, want %d; equal=%v", st.path, off, ln, len(content), leaf, streamed, op.BytesRead, len(want), bytes.Equal(op.Dst[:min(op.BytesRead, len(want))], want[:min(op.BytesRead, len(want))]))
						return nil, nil
					}
					w.Probe("readfile")
				}
			}
			return nil, nil
		})
	}
	if v := w.Run(); v != nil {
		if v.Property == "" {
			v.Property = prop
		}
		return v
	}
	for _, tk := range w.Tasks() {
		if pv := taskProblem(prop, tk, tk.Name); pv != nil {
			return pv
		}
	}
	if streamed && w.Stats.Concurrent > 0 || nCallers > 1 {
		w.Probe("nontrivial")
	}
	return nil
}

package props

import (
	"fmt"
	"strings"

	"github.com/oneconcern/datamon/pkg/core"
	"github.com/oneconcern/datamon/pkg/model"

	"verifsim/refmodel"
	"verifsim/simkit"
)

func init() {
	Register(&Scenario{Prop: "C06", Name: "crash-upload", Strict: true, Quick: 10, Thorough: 10, Run: func(rc *RunCtx) *simkit.Violation { return runC06Upload(rc, false) }})
	// the interruption is a store error (before the write lands, or after it landed) instead of the death of the
	// process: the operation goes on and reports whatever it reports; a bundle may only be visible if it is complete
	Register(&Scenario{Prop: "C06", Name: "store-error-upload", Strict: true, Quick: 5, Thorough: 6, Run: func(rc *RunCtx) *simkit.Violation { return runC06Upload(rc, true) }})
	Register(&Scenario{Prop: "C06", Name: "uploaders-with-one-bundle-id", Strict: true, Quick: 2, Thorough: 3, Run: runC06SameID})
	Register(&Scenario{Prop: "C06", Name: "crash-label", Strict: true, Quick: 2, Thorough: 2, Run: runC06Label})
	Register(&Scenario{Prop: "C06", Name: "crash-upload-enumerated", Strict: true, Quick: 1, Thorough: 3, Run: runC06Enum})
}

// runC06SameID: two or three uploaders are given the same bundle id (uploads that preserve an id: a migration job started
// twice) and run concurrently with different trees. At most one reports success; a bundle is visible only if it is
// complete - it downloads to the tree of an uploader that reported success - and nothing of it is written once its
// descriptor exists (per-event invariant).
func runC06SameID(rc *RunCtx) *simkit.Violation {
	const prop = "C06"
	w := rc.W
	t := w.W
	d := newDM(rc)
	d.CRC = t.Bool(1, 2)
	leaf := uint32(64)
	setup := w.Client("setup")
	if v := createRepo(prop, d, setup, "r1"); v != nil {
		return v
	}
	w.OnEvent(immutableBundles(prop, d.Meta))
	id := newID(t)
	k := t.Range(2, 3)
	var tasks []*simkit.Task
	var trees []Tree
	for i := 0; i < k; i++ {
		tr := Tree{"data/one.txt": []byte(fmt.Sprintf("one as uploader %d sees it", i))}
		for j, n := 0, t.Range(0, 3); j < n; j++ {
			tr[fmt.Sprintf("data/f%d-%d", i, j)] = t.Bytes(t.Range(0, 150))
		}
		trees = append(trees, tr)
		src := memDisk()
		_ = src.MkdirAll(".", 0o755)
		_ = writeTree(src, tr)
		c := w.Client(fmt.Sprintf("up%d", i))
		_, fn := d.upload(c, d.Stores(c), "r1", src, uploadOpts{leaf: leaf, concUp: t.Pick(1, 3), message: fmt.Sprintf("uploader %d", i), bundleID: id})
		tasks = append(tasks, w.Go(c, "upload", fn))
	}
	w.Note("%d concurrent uploads with the same bundle id %s", k, id)
	if v := w.Run(); v != nil {
		if v.Property == "" {
			v.Property = prop
		}
		return v
	}
	winners := []int{}
	for i, tk := range tasks {
		if pv := taskProblem(prop, tk, "Upload"); pv != nil {
			return pv
		}
		if tk.Err == nil {
			winners = append(winners, i)
		}
	}
	if len(winners) > 1 {
		return Viol(prop, "two-uploads-one-id", "Upload", id, "%d concurrent uploads with the same bundle id report success (%v)", len(winners), winners)
	}
	if w.Stats.Concurrent > 0 {
		w.Probe("nontrivial")
	}
	obs := w.Client("observer")
	visible := d.Meta.Peek("bundles/r1/"+id+"/bundle.yaml") != nil
	if len(winners) == 1 && !visible {
		return Viol(prop, "success-but-not-committed", "Upload", id, "uploader %d reported success but the bundle has no descriptor", winners[0])
	}
	if !visible {
		w.Probe("no-uploader-won")
		return nil
	}
	dst := memDisk()
	_, fn := d.downloadFn(d.Stores(obs), "r1", id, dst, downloadOpts{concDown: 2})
	pt, v := doOp(prop, w, obs, "publish", fn)
	if v != nil {
		return v
	}
	if pt.Err != nil {
		return Viol(prop, "partial-bundle-visible", "Publish", id, "the bundle is visible but cannot be downloaded: %v", pt.Err)
	}
	got, _ := readTree(dst)
	data, _ := splitMeta(got)
	if len(winners) == 1 {
		if df := diffTrees(trees[winners[0]], data); df != "" {
			return Viol(prop, "visible-bundle-differs", "Publish", id, "uploader %d won the bundle id, the visible bundle downloads to something else than its tree: %s", winners[0], df)
		}
		w.Probe(fmt.Sprintf("uploader-%d-won", winners[0]))
		return nil
	}
	// the descriptor landed although every uploader reports a failure: still one uploader's complete tree
	for _, tr := range trees {
		if diffTrees(tr, data) == "" {
			return nil
		}
	}
	return Viol(prop, "visible-bundle-differs", "Publish", id, "no uploader reports success, a bundle is visible and downloads to none of the uploaders' trees")
}

// immutableBundles is the per-event invariant of C06: once bundles/{repo}/{id}/bundle.yaml exists, nothing
// under bundles/{repo}/{id}/ is written or deleted (no delete/squash operation exists in these workloads).
func immutableBundles(prop string, meta *simkit.Backend) func(*simkit.Event) *simkit.Violation {
	committed := map[string]bool{}
	return func(ev *simkit.Event) *simkit.Violation {
		if ev.Bucket != meta.Name || !ev.Op.IsWrite() || !strings.HasPrefix(ev.Key, "bundles/") {
			return nil
		}
		i := strings.LastIndex(ev.Key, "/")
		dir := ev.Key[:i+1]
		if committed[dir] && ev.Landed {
			return Viol(prop, "committed-bundle-modified", ev.Op.String(), ev.Key, "%s on %s after the bundle's descriptor had been written", ev.Op, ev.Key)
		}
		if strings.HasSuffix(ev.Key, "/bundle.yaml") && ev.Landed && (ev.Op == simkit.OpPut || ev.Op == simkit.OpPutExcl) {
			committed[dir] = true
		}
		return nil
	}
}

// uploadWriteBound is an upper bound of the number of store writes of an upload of tree.
func uploadWriteBound(tree Tree, leaf uint32) int {
	seen := map[string]bool{}
	n := 0
	for _, c := range tree {
		root, leaves := refmodel.TreeKeys(c, leaf)
		for _, l := range leaves {
			if !seen[refmodel.Hex(l)] {
				seen[refmodel.Hex(l)] = true
				n++
			}
		}
		if !seen[refmodel.Hex(root)] {
			seen[refmodel.Hex(root)] = true
			n++
		}
	}
	return n + (len(tree)+999)/1000 + 1
}

func drawHistory(prop string, d *DM, t *simkit.Tape, cl *simkit.Client, repo string, leaf uint32, maxBundles int) (*mRepo, *simkit.Violation) {
	r := &mRepo{Name: repo, Labels: map[string]string{}}
	if v := createRepo(prop, d, cl, repo); v != nil {
		return nil, v
	}
	nb := t.Range(0, maxBundles)
	for i := 0; i < nb; i++ {
		tree := drawTree(t, t.Range(0, 4), leaf, fmt.Sprintf("h%d", i))
		if _, v := addBundle(prop, d, cl, r, tree, leaf, t.Pick(1, 4, 20)); v != nil {
			return nil, v
		}
		if t.Bool(1, 2) {
			if v := addLabel(prop, d, cl, r, fmt.Sprintf("l%d", t.Choose(3)), r.Bundles[t.Choose(len(r.Bundles))].ID); v != nil {
				return nil, v
			}
		}
	}
	return r, nil
}

func runC06Upload(rc *RunCtx, storeError bool) *simkit.Violation {
	const prop = "C06"
	w := rc.W
	t := w.W
	d := newDM(rc)
	d.CRC = t.Bool(3, 4)
	w.OnEvent(immutableBundles(prop, d.Meta))
	leaf := uint32(t.Pick(64, 100, 4096))
	setup := w.Client("setup")
	r, v := drawHistory(prop, d, t, setup, "r1", leaf, 3)
	if v != nil {
		return v
	}
	tree := drawTree(t, t.Range(1, 5), leaf, "t")
	bound := uploadWriteBound(tree, leaf)
	cp := t.Range(0, bound-1)
	if t.Bool(1, 3) {
		cp = bound - 1 - t.Choose(min(3, bound)) // bias to the index-file / descriptor writes
	}
	kind := simkit.FCrashB
	if t.Bool(1, 2) {
		kind = simkit.FCrashA
	}
	if storeError {
		kind = simkit.FErr
		if t.Bool(1, 2) {
			kind = simkit.FAckLost
		}
	}
	victim := w.Client("victim")
	src := memDisk()
	_ = writeTree(src, tree)
	vb, vfn := d.upload(victim, d.Stores(victim), "r1", src, uploadOpts{leaf: leaf, concUp: t.Pick(1, 3, 20), message: "target"})
	w.Note("history: %d bundles %d labels; target upload of %d files (<=%d writes) crashes %s its write #%d", len(r.Bundles), len(r.Labels), len(tree), bound, kind, cp)
	w.Faults = &simkit.FaultCfg{Plan: []*simkit.Planned{{Client: "victim", Nth: cp, Kind: kind}}}
	// a second uploader working concurrently on the same repository, unharmed
	var other *simkit.Task
	otherTree := Tree{}
	if t.Bool(1, 3) {
		oc := w.Client("other")
		otherTree = drawTree(t, t.Range(1, 3), leaf, "o")
		for _, p := range tree.paths() {
			if t.Bool(1, 3) {
				otherTree["shared-"+fmt.Sprint(len(otherTree))] = tree[p]
			}
		}
		osrc := memDisk()
		_ = writeTree(osrc, otherTree)
		_, ofn := d.upload(oc, d.Stores(oc), "r1", osrc, uploadOpts{leaf: leaf, concUp: 3, message: "other"})
		other = w.Go(oc, "upload-other", ofn)
	}
	vt := w.Go(victim, "upload-target", vfn)
	if v := w.Run(); v != nil {
		if v.Property == "" {
			v.Property = prop
		}
		return v
	}
	w.Faults = nil
	if other != nil {
		if pv := taskProblem(prop, other, "concurrent upload"); pv != nil {
			return pv
		}
		if other.Err != nil {
			return Viol(prop, "bystander-failed", "Upload", "r1", "an uploader running next to the crashed one failed: %v", other.Err)
		}
		r.Bundles = append(r.Bundles, &mBundle{ID: other.Result.(*core.Bundle).BundleID, Tree: otherTree, Leaf: leaf})
	}
	extra := map[string]*mBundle{}
	if victim.Dead {
		w.Probe("nontrivial")
		w.Probe("crash-fired")
		if vb.BundleID != "" {
			extra[vb.BundleID] = &mBundle{ID: vb.BundleID, Tree: tree, Leaf: leaf}
		}
		if cp >= bound-2 {
			w.Probe("crash-near-commit")
		}
	} else if storeError && victim.Writes > cp {
		// the chosen write failed (or landed and reported a failure) and the upload went on
		w.Probe("nontrivial")
		w.Probe("store-error-fired")
		if pv := taskProblem(prop, vt, "upload"); pv != nil {
			return pv
		}
		if vt.Err == nil {
			// it reports success: its bundle is committed and must be complete
			w.Probe("upload-succeeded-despite-store-error")
			r.Bundles = append(r.Bundles, &mBundle{ID: vb.BundleID, Tree: tree, Leaf: leaf})
		} else if vb.BundleID != "" {
			extra[vb.BundleID] = &mBundle{ID: vb.BundleID, Tree: tree, Leaf: leaf}
		}
	} else {
		// crash point beyond the last write: the upload completed
		if pv := taskProblem(prop, vt, "upload"); pv != nil {
			return pv
		}
		if vt.Err != nil {
			return Viol(prop, "upload-error", "Upload", "r1", "fault-free upload failed: %v", vt.Err)
		}
		r.Bundles = append(r.Bundles, &mBundle{ID: vb.BundleID, Tree: tree, Leaf: leaf})
	}
	obs := w.Client("observer")
	if v := observe(prop, d, obs, r, extra, t, true); v != nil {
		return v
	}
	if !victim.Dead && len(extra) == 0 {
		return nil
	}
	// if the interrupted upload is visible it counts as committed from now on
	if vb.BundleID != "" && d.Meta.Peek(model.GetArchivePathToBundle("r1", vb.BundleID)) != nil {
		r.Bundles = append(r.Bundles, extra[vb.BundleID])
	}
	// retry by a fresh process
	re := w.Client("retry")
	if _, v := addBundleAs(prop, d, re, r, tree, leaf, "retried upload after the crash"); v != nil {
		return v
	}
	return observe(prop, d, w.Client("observer2"), r, nil, t, true)
}

// addBundleAs is addBundle with a violation (not a harness error) when the upload fails.
func addBundleAs(prop string, d *DM, c *simkit.Client, r *mRepo, tree Tree, leaf uint32, what string) (*mBundle, *simkit.Violation) {
	src := memDisk()
	_ = src.MkdirAll(".", 0o755)
	_ = writeTree(src, tree)
	_, fn := d.upload(c, d.Stores(c), r.Name, src, uploadOpts{leaf: leaf, concUp: 4, message: what})
	tk, v := doOp(prop, d.w, c, what, fn)
	if v != nil {
		return nil, v
	}
	if tk.Err != nil {
		return nil, Viol(prop, "retry-failed", "Upload", r.Name, "%s failed: %v", what, tk.Err)
	}
	mb := &mBundle{ID: tk.Result.(*core.Bundle).BundleID, Tree: tree, Leaf: leaf}
	r.Bundles = append(r.Bundles, mb)
	return mb, nil
}

func runC06Label(rc *RunCtx) *simkit.Violation {
	const prop = "C06"
	w := rc.W
	t := w.W
	d := newDM(rc)
	d.VMet.Versioned = t.Bool(1, 2)
	w.OnEvent(immutableBundles(prop, d.Meta))
	leaf := uint32(64)
	setup := w.Client("setup")
	r, v := drawHistory(prop, d, t, setup, "r1", leaf, 3)
	if v != nil {
		return v
	}
	if len(r.Bundles) == 0 {
		if _, v := addBundle(prop, d, setup, r, drawTree(t, 2, leaf, "x"), leaf, 4); v != nil {
			return v
		}
	}
	name := fmt.Sprintf("l%d", t.Choose(3))
	target := r.Bundles[t.Choose(len(r.Bundles))].ID
	kind := simkit.FCrashB
	if t.Bool(1, 2) {
		kind = simkit.FCrashA
	}
	victim := w.Client("victim")
	w.Faults = &simkit.FaultCfg{Plan: []*simkit.Planned{{Client: "victim", Nth: 0, Kind: kind}}}
	w.Note("history: %d bundles, labels %v; label set %s -> %s crashes %s its write", len(r.Bundles), r.Labels, name, target, kind)
	w.Go(victim, "label-set", setLabelFn(d.Stores(victim), "r1", name, target))
	if v := w.Run(); v != nil {
		v.Property = prop
		return v
	}
	w.Faults = nil
	w.Probe("nontrivial")
	if kind == simkit.FCrashA {
		r.Labels[name] = target
	}
	if v := observe(prop, d, w.Client("observer"), r, nil, t, true); v != nil {
		return v
	}
	// retry
	if v := addLabel(prop, d, w.Client("retry"), r, name, target); v != nil {
		v.Class, v.Discr = "retry-failed", "label-set"
		return v
	}
	return observe(prop, d, w.Client("observer2"), r, nil, t, false)
}

// runC06Enum enumerates every crash point (each store write, before and after it lands) of the upload of
// one small tree: each crash point gets its own repository with one earlier committed bundle.
func runC06Enum(rc *RunCtx) *simkit.Violation {
	const prop = "C06"
	w := rc.W
	t := w.W
	d := newDM(rc)
	w.OnEvent(immutableBundles(prop, d.Meta))
	leaf := uint32(t.Pick(64, 100))
	shape := drawTree(t, t.Range(1, 3), leaf, "")
	salted := func(s string) Tree {
		out := Tree{}
		for p, c := range shape {
			out[p] = append([]byte(s), c...)
		}
		return out
	}
	setup := w.Client("setup")
	// calibration: how many writes does this upload make?
	cal := &mRepo{Name: "cal"}
	if v := createRepo(prop, d, setup, "cal"); v != nil {
		return v
	}
	calc := w.Client("calibrate")
	if _, v := addBundle(prop, d, calc, cal, salted("cal"), leaf, 2); v != nil {
		return v
	}
	n := calc.Writes
	w.Note("enumerating %d interruption points x {crash before, crash after, error before, error after landing} of an upload of %d files (leaf %d)", n, len(shape), leaf)
	w.ProbeN("crash-points-enumerated", 2*n)
	w.ProbeN("store-error-points-enumerated", 2*n)
	w.Probe("nontrivial")
	for cp := 0; cp < n; cp++ {
		for ki, kind := range []simkit.Kind{simkit.FCrashB, simkit.FCrashA, simkit.FErr, simkit.FAckLost} {
			name := fmt.Sprintf("e%d%c", cp, "baxy"[ki])
			r := &mRepo{Name: name, Labels: map[string]string{}}
			if v := createRepo(prop, d, setup, name); v != nil {
				return v
			}
			if _, v := addBundle(prop, d, setup, r, salted(name+"-prev"), leaf, 2); v != nil {
				return v
			}
			if v := addLabel(prop, d, setup, r, "keep", r.Bundles[0].ID); v != nil {
				return v
			}
			victim := w.Client("victim-" + name)
			tree := salted(name)
			src := memDisk()
			_ = writeTree(src, tree)
			vb, vfn := d.upload(victim, d.Stores(victim), name, src, uploadOpts{leaf: leaf, concUp: 2, message: "target"})
			w.Faults = &simkit.FaultCfg{Plan: []*simkit.Planned{{Client: victim.Name, Nth: cp, Kind: kind}}}
			evt := w.Go(victim, "upload-target", vfn)
			if v := w.Run(); v != nil {
				if v.Property == "" {
					v.Property = prop
				}
				return v
			}
			w.Faults = nil
			extra := map[string]*mBundle{}
			if !victim.Dead && (kind == simkit.FErr || kind == simkit.FAckLost) && victim.Writes > cp {
				// the store error fired and the upload went on: a reported success is a committed bundle
				if pv := taskProblem(prop, evt, "upload"); pv != nil {
					return pv
				}
				if evt.Err == nil {
					r.Bundles = append(r.Bundles, &mBundle{ID: vb.BundleID, Tree: tree, Leaf: leaf})
				} else if vb.BundleID != "" {
					extra[vb.BundleID] = &mBundle{ID: vb.BundleID, Tree: tree, Leaf: leaf}
				}
			} else if !victim.Dead {
				// fewer writes than the calibration run under this schedule (dedup inside the upload): completed
				r.Bundles = append(r.Bundles, &mBundle{ID: vb.BundleID, Tree: tree, Leaf: leaf})
				w.Probe("crash-point-beyond-last-write")
			} else if vb.BundleID != "" {
				extra[vb.BundleID] = &mBundle{ID: vb.BundleID, Tree: tree, Leaf: leaf}
			}
			if v := observe(prop, d, w.Client("obs-"+name), r, extra, t, true); v != nil {
				v.Message = fmt.Sprintf("[%s at write %d/%d] %s", kind, cp, n, v.Message)
				return v
			}
		}
	}
	return nil
}

func init() {
	Register(&Scenario{Prop: "C06", Name: "crash-diamond-commit", Strict: true, Quick: 3, Thorough: 4, Run: func(rc *RunCtx) *simkit.Violation { return runC06Commit(rc, false) }})
	Register(&Scenario{Prop: "C06", Name: "store-error-diamond-commit", Strict: true, Quick: 2, Thorough: 3, Run: func(rc *RunCtx) *simkit.Violation { return runC06Commit(rc, true) }})
}

// runC06Commit: a diamond commit is killed at a chosen store write; the bundle it was producing is visible
// only if its descriptor landed, and then it is complete.
func runC06Commit(rc *RunCtx, storeError bool) *simkit.Violation {
	const prop = "C06"
	w := rc.W
	t := w.W
	d := newDM(rc)
	w.OnEvent(immutableBundles(prop, d.Meta))
	setup := w.Client("setup")
	r, v := drawHistory(prop, d, t, setup, "r1", 2<<20, 2)
	if v != nil {
		return v
	}
	ct, v := doOp(prop, w, setup, "diamond-init", createDiamondFn(d.Stores(setup), "r1"))
	if v != nil {
		return v
	}
	did := ct.Result.(string)
	ns := t.Range(1, 3)
	merged := Tree{}
	for i := 0; i < ns; i++ {
		c := w.Client(fmt.Sprintf("split%d", i))
		tr := Tree{fmt.Sprintf("only-%d", i): []byte(fmt.Sprintf("only %d", i)), "shared": []byte("same everywhere")}
		src := memDisk()
		_ = writeTree(src, tr)
		tk, v := doOp(prop, w, c, "split-add", splitAddFn(d.Stores(c), "r1", did, "", src, 2, 0, nil))
		if v != nil {
			return v
		}
		if tk.Err != nil {
			return Viol(prop, "harness", "split add", "", "%v", tk.Err)
		}
		for p, b := range tr {
			merged[p] = b
		}
	}
	victim := w.Client("victim")
	var dia *core.Diamond
	cp := t.Range(0, 3)
	kind := simkit.Kind(int(simkit.FCrashB) + t.Choose(2))
	anyCall := false
	if storeError {
		kind = simkit.Kind(int(simkit.FErr) + t.Choose(2))
		if t.Bool(1, 2) {
			// the error hits any call of the commit, reads of split descriptors and file lists included
			anyCall, kind, cp = true, simkit.FErr, t.Range(0, 25)
		}
	}
	w.Faults = &simkit.FaultCfg{Plan: []*simkit.Planned{{Client: "victim", Nth: cp, Any: anyCall, Kind: kind}}}
	w.Note("history %d bundles; diamond with %d splits; commit meets %s at its write #%d", len(r.Bundles), ns, kind, cp)
	vt := w.Go(victim, "commit", commitFn(d.Stores(victim), "r1", did, model.IgnoreConflicts, 0, &dia))
	if v := w.Run(); v != nil {
		v.Property = prop
		return v
	}
	w.Faults = nil
	extra := map[string]*mBundle{}
	landed := false
	if dia != nil && dia.BundleID != "" {
		extra[dia.BundleID] = &mBundle{ID: dia.BundleID, Tree: merged, Leaf: 2 << 20}
		landed = d.Meta.Peek(model.GetArchivePathToBundle("r1", dia.BundleID)) != nil
	}
	errored := storeError && !victim.Dead && (victim.Writes > cp || (anyCall && victim.Calls > cp))
	if errored {
		w.Probe("nontrivial")
		w.Probe("store-error-fired")
		if pv := taskProblem(prop, vt, "commit"); pv != nil {
			return pv
		}
		if vt.Err == nil {
			w.Probe("commit-succeeded-despite-store-error")
			if d.VMet.Peek(model.GetArchivePathToFinalDiamond("r1", did)) == nil {
				return Viol(prop, "commit-success-not-recorded", "Commit", did, "the commit met %s at its write #%d and reported success, but the diamond has no terminal descriptor (a retry commits it again)", kind, cp)
			}
			r.Bundles = append(r.Bundles, extra[dia.BundleID])
			extra = nil
			errored = false
		}
	} else if !victim.Dead {
		if vt.Err != nil {
			return Viol(prop, "commit-failed", "Commit", did, "fault-free commit failed: %v", vt.Err)
		}
		r.Bundles = append(r.Bundles, extra[dia.BundleID])
		extra = nil
	} else {
		w.Probe("nontrivial")
		w.Probe("crash-fired")
	}
	if v := observe(prop, d, w.Client("observer"), r, extra, t, true); v != nil {
		return v
	}
	if !(victim.Dead || errored) || landed {
		return nil // retrying a commit whose bundle descriptor landed is the recorded finding of C12
	}
	re := w.Client("retry")
	var dia2 *core.Diamond
	rt, v := doOp(prop, w, re, "commit-retry", commitFn(d.Stores(re), "r1", did, model.IgnoreConflicts, 0, &dia2))
	if v != nil {
		return v
	}
	if rt.Err != nil {
		return Viol(prop, "retry-failed", "Commit", did, "the commit retried after a crash (no bundle descriptor had landed) failed: %v", rt.Err)
	}
	r.Bundles = append(r.Bundles, &mBundle{ID: dia2.BundleID, Tree: merged, Leaf: 2 << 20})
	return observe(prop, d, w.Client("observer2"), r, nil, t, true)
}

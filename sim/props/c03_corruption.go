package props

import (
	"bytes"
	"fmt"
	"io"

	"github.com/oneconcern/datamon/pkg/cafs"
	"github.com/oneconcern/datamon/pkg/core"
	"github.com/spf13/afero"

	"verifsim/refmodel"
	"verifsim/simkit"
)

func init() {
	Register(&Scenario{Prop: "C03", Name: "rot-sampled", Strict: true, Quick: 12, Thorough: 12, Run: runC03Sampled})
	Register(&Scenario{Prop: "C03", Name: "rot-enumerated", Strict: true, Quick: 1, Thorough: 2, Run: runC03Enum})
}

// mutation of one stored blob at rest
type rot struct {
	key  string // blob key damaged
	data []byte // new bytes; nil = deleted
	desc string
}

// blobLayout lists the blob keys of an object: leaves in order, then the root.
func blobLayout(content []byte, leaf uint32) (leaves []string, root string) {
	r, ls := refmodel.TreeKeys(content, leaf)
	for _, l := range ls {
		leaves = append(leaves, refmodel.Hex(l))
	}
	return leaves, refmodel.Hex(r)
}

func drawRot(t *simkit.Tape, blob *simkit.Backend, leaves []string, root string, otherLeaves []string, otherRoot string) rot {
	all := append(append([]string(nil), leaves...), root)
	ti := t.Choose(len(all))
	key := all[ti]
	orig := blob.Peek(key).Data
	isRoot := ti == len(all)-1
	name := fmt.Sprintf("leaf%d", ti)
	if isRoot {
		name = "root"
	}
	kind := t.Choose(7)
	switch {
	case kind == 0 && len(orig) > 0: // bit flip
		d := append([]byte(nil), orig...)
		p := t.Choose(len(d))
		d[p] ^= 1 << uint(t.Choose(8))
		return rot{key, d, fmt.Sprintf("%s: bit flip at byte %d", name, p)}
	case kind == 1: // truncate
		n := 0
		if len(orig) > 1 {
			n = t.Pick(0, 1, len(orig)-1, t.Range(0, len(orig)-1))
		}
		return rot{key, append([]byte{}, orig[:n]...), fmt.Sprintf("%s: truncated from %d to %d bytes", name, len(orig), n)}
	case kind == 2: // delete
		return rot{key, nil, name + ": deleted"}
	case kind == 3 && !isRoot: // replaced by another leaf of the same object, or of another object
		pool := append(append([]string(nil), leaves...), otherLeaves...)
		src := pool[t.Choose(len(pool))]
		return rot{key, append([]byte{}, blob.Peek(src).Data...), fmt.Sprintf("%s: replaced by the bytes of blob %s…", name, src[:8])}
	case kind == 4: // extended
		return rot{key, append(append([]byte{}, orig...), t.Bytes(t.Range(1, 9))...), name + ": extra bytes appended"}
	case isRoot && kind == 5: // root structure damage
		nk := len(orig)/64 - 1
		d := append([]byte(nil), orig...)
		switch t.Choose(4) {
		case 0:
			if nk >= 1 { // drop a key
				i := t.Choose(nk)
				d = append(append([]byte{}, orig[:64*i]...), orig[64*(i+1):]...)
				return rot{key, d, fmt.Sprintf("root: leaf key %d dropped", i)}
			}
		case 1:
			if nk >= 1 { // duplicate a key
				i := t.Choose(nk)
				d = append(append(append([]byte{}, orig[:64*(i+1)]...), orig[64*i:64*(i+1)]...), orig[64*(i+1):]...)
				return rot{key, d, fmt.Sprintf("root: leaf key %d duplicated", i)}
			}
		case 2:
			if nk >= 2 { // swap two keys
				i := t.Choose(nk - 1)
				copy(d[64*i:], orig[64*(i+1):64*(i+2)])
				copy(d[64*(i+1):], orig[64*i:64*(i+1)])
				return rot{key, d, fmt.Sprintf("root: leaf keys %d and %d swapped", i, i+1)}
			}
		}
		return rot{key, append([]byte{}, blob.Peek(otherRoot).Data...), "root: replaced by another object's root blob"}
	case isRoot: // replaced by another root
		return rot{key, append([]byte{}, blob.Peek(otherRoot).Data...), "root: replaced by another object's root blob"}
	default:
		d := append([]byte(nil), orig...)
		if len(d) == 0 {
			return rot{key, []byte{1}, name + ": empty blob replaced by one byte"}
		}
		p := t.Choose(len(d))
		d[p] ^= 0xff
		return rot{key, d, fmt.Sprintf("%s: byte %d inverted", name, p)}
	}
}

// checkRottenReads reads the (possibly damaged) object through every read style with the given cafs
// and reports any bytes returned, without an error, that differ from the original.
func checkRottenReads(prop string, w *simkit.World, fs cafs.Fs, key cafs.Key, content []byte, leaf uint32, styles []int, t *simkit.Tape, what string) *simkit.Violation {
	L := int(leaf)
	for _, st := range styles {
		switch st {
		case 0:
			r, err := fs.Get(bg, key)
			if err != nil {
				w.Probe("detected-at-open")
				continue
			}
			var got []byte
			var rerr error
			buf := make([]byte, t.Pick(1, 7, L-1, L, L+1, 2*L))
			for i := 0; i < 100000; i++ {
				n, err := r.Read(buf)
				got = append(got, buf[:n]...)
				if err != nil {
					rerr = err
					break
				}
			}
			if rerr == io.EOF {
				if !bytes.Equal(got, content) {
					return Viol(prop, "corrupt-read-accepted", "Read", what, "sequential Read (buffer %d) ended with io.EOF and delivered %d bytes that differ from the %d stored; damage: %s", len(buf), len(got), len(content), what)
				}
				w.Probe("read-legitimately-ok")
			} else {
				w.Probe("detected")
			}
		case 1:
			r, err := fs.GetAt(bg, key)
			if err != nil {
				w.Probe("detected-at-open")
				continue
			}
			for i := 0; i < 3; i++ {
				off := t.Range(0, len(content)+L)
				ln := t.Pick(1, L, 2*L+1, len(content)+1)
				buf := make([]byte, ln)
				n, err := r.ReadAt(buf, int64(off))
				if err != nil && err != io.EOF {
					w.Probe("detected")
					continue
				}
				var want []byte
				if off < len(content) {
					want = content[off:min(len(content), off+ln)]
				}
				if !bytes.Equal(buf[:n], want) {
					return Viol(prop, "corrupt-read-accepted", "ReadAt", what, "ReadAt(len %d, off %d) returned %d bytes (err=%v) that differ from the stored range (%d bytes); damage: %s", ln, off, n, err, len(want), what)
				}
				w.Probe("read-legitimately-ok")
			}
		case 2:
			r, err := fs.Get(bg, key)
			if err != nil {
				w.Probe("detected-at-open")
				continue
			}
			pw := &plainWriter{}
			_, err = r.(io.WriterTo).WriteTo(pw)
			if err == nil {
				if !bytes.Equal(pw.b.Bytes(), content) {
					return Viol(prop, "corrupt-read-accepted", "WriteTo", what, "WriteTo(plain writer) succeeded and delivered %d bytes that differ from the %d stored; damage: %s", pw.b.Len(), len(content), what)
				}
				w.Probe("read-legitimately-ok")
			} else {
				w.Probe("detected")
			}
		case 3:
			r, err := fs.Get(bg, key)
			if err != nil {
				w.Probe("detected-at-open")
				continue
			}
			mw := &memWriterAt{}
			_, err = r.(io.WriterTo).WriteTo(mw)
			if err == nil {
				if !bytes.Equal(mw.b, content) {
					return Viol(prop, "corrupt-read-accepted", "WriteTo-WriterAt", what, "WriteTo(io.WriterAt) succeeded and wrote %d bytes that differ from the %d stored; damage: %s", len(mw.b), len(content), what)
				}
				w.Probe("read-legitimately-ok")
			} else {
				// the failed transfer must not have put altered bytes into the destination either: whatever it wrote
				// is the stored byte at that offset (never-written ranges read as zeros)
				if len(mw.b) > len(content) {
					return Viol(prop, "corrupt-bytes-written", "WriteTo-WriterAt", what, "WriteTo(io.WriterAt) failed (%v) after writing %d bytes into the destination of a %d-byte object; damage: %s", err, len(mw.b), len(content), what)
				}
				for i, b := range mw.b {
					if b != content[i] && b != 0 {
						return Viol(prop, "corrupt-bytes-written", "WriteTo-WriterAt", what, "WriteTo(io.WriterAt) failed (%v) but had already written altered bytes into the destination (offset %d of %d written, object of %d bytes, leaf %d); damage: %s", err, i, len(mw.b), len(content), L, what)
					}
				}
				w.Probe("detected")
			}
		}
	}
	return nil
}

func putOrFail(prop string, w *simkit.World, cl *simkit.Client, fs cafs.Fs, content []byte) (cafs.PutRes, *simkit.Violation) {
	tk, v := w.Do(cl, "put", func() (interface{}, error) { return fs.Put(bg, bytes.NewReader(content)) })
	if v != nil {
		v.Property = prop
		return cafs.PutRes{}, v
	}
	if pv := taskProblem(prop, tk, "Put"); pv != nil {
		return cafs.PutRes{}, pv
	}
	if tk.Err != nil {
		return cafs.PutRes{}, Viol(prop, "harness", "Put", "", "fault-free Put failed: %v", tk.Err)
	}
	return tk.Result.(cafs.PutRes), nil
}

func runC03Sampled(rc *RunCtx) *simkit.Violation {
	const prop = "C03"
	w := rc.W
	t := w.W
	kn := drawKnobs(t, rc.Thorough())
	if kn.leaf > 65536 {
		kn.leaf = uint32(t.Pick(64, 100, 4096))
	}
	L := int(kn.leaf)
	content := t.Bytes(t.Range(0, 5)*L + t.Pick(1, L/2, L-1, L))
	other := t.Bytes(t.Range(1, 3)*L + t.Range(0, L-1))
	blob := w.Bucket("blob")
	cl := w.Client("c0")
	wfs, err := newCafs(cl.Store(blob), kn)
	if err != nil {
		return Viol(prop, "harness", "cafs.New", "", "%v", err)
	}
	res, v := putOrFail(prop, w, cl, wfs, content)
	if v != nil {
		return v
	}
	if _, v := putOrFail(prop, w, cl, wfs, other); v != nil {
		return v
	}
	leaves, root := blobLayout(content, kn.leaf)
	oLeaves, oRoot := blobLayout(other, kn.leaf)
	// warm configuration: read everything once before the damage, through the cafs that will read again
	rfs, _ := newCafs(cl.Store(blob), kn)
	warm := t.Bool(1, 3)
	if warm {
		w.Go(cl, "warm", func() (interface{}, error) {
			r, err := rfs.GetAt(bg, res.Key)
			if err == nil {
				_, _ = r.ReadAt(make([]byte, len(content)+1), 0)
			}
			return nil, nil
		})
		if v := w.Run(); v != nil {
			v.Property = prop
			return v
		}
	}
	m := drawRot(t, blob, leaves, root, oLeaves, oRoot)
	if bytes.Equal(blob.Peek(m.key).Data, m.data) && m.data != nil {
		w.Probe("identity-mutation")
	}
	blob.Damage(m.key, m.data)
	w.Probe("nontrivial")
	w.Note("cafs %s; object %d bytes (%d leaves); damage: %s; warm=%v", kn, len(content), len(leaves), m.desc, warm)
	styles := t.Perm(4)
	tk := w.Go(cl, "reads", func() (interface{}, error) {
		if v := checkRottenReads(prop, w, rfs, res.Key, content, kn.leaf, styles, t, m.desc); v != nil {
			w.Fail(v)
		}
		return nil, nil
	})
	if v := w.Run(); v != nil {
		if v.Property == "" {
			v.Property = prop
		}
		return v
	}
	return taskProblem(prop, tk, "read of a damaged object")
}

// runC03Enum enumerates, for one small object, every truncation length and one bit flip per byte of
// every blob, every deletion and every leaf-by-leaf replacement, each observed through all four read
// styles with a cold cafs.
func runC03Enum(rc *RunCtx) *simkit.Violation {
	const prop = "C03"
	w := rc.W
	t := w.W
	kn := cafsKnobs{leaf: uint32(t.Pick(64, 65, 100)), flushes: 1, prefetch: t.Pick(0, 1), cacheBufs: 2, crc: true, readStyle: t.Choose(3), readChunk: 17}
	L := int(kn.leaf)
	nl := t.Range(1, 3)
	content := t.Bytes((nl-1)*L + t.Pick(1, L/2, L))
	other := t.Bytes(L + 3)
	blob := w.Bucket("blob")
	cl := w.Client("c0")
	wfs, _ := newCafs(cl.Store(blob), kn)
	res, v := putOrFail(prop, w, cl, wfs, content)
	if v != nil {
		return v
	}
	if _, v := putOrFail(prop, w, cl, wfs, other); v != nil {
		return v
	}
	leaves, root := blobLayout(content, kn.leaf)
	oLeaves, _ := blobLayout(other, kn.leaf)
	var muts []rot
	all := append(append([]string(nil), leaves...), root)
	for bi, key := range all {
		orig := append([]byte(nil), blob.Peek(key).Data...)
		name := fmt.Sprintf("blob%d", bi)
		for n := 0; n < len(orig); n++ {
			muts = append(muts, rot{key, append([]byte{}, orig[:n]...), fmt.Sprintf("%s truncated to %d/%d", name, n, len(orig))})
		}
		for p := 0; p < len(orig); p++ {
			d := append([]byte(nil), orig...)
			d[p] ^= 1 << uint(p%8)
			muts = append(muts, rot{key, d, fmt.Sprintf("%s bit flip at byte %d", name, p)})
		}
		muts = append(muts, rot{key, nil, name + " deleted"})
		if bi < len(leaves) {
			for _, src := range append(append([]string(nil), leaves...), oLeaves...) {
				if src != key {
					muts = append(muts, rot{key, append([]byte{}, blob.Peek(src).Data...), fmt.Sprintf("%s replaced by blob %s…", name, src[:8])})
				}
			}
		}
	}
	w.Note("enumeration: object %d bytes, leaf %d, %d blobs, %d single-blob corruptions x 4 read styles", len(content), L, len(all), len(muts))
	w.ProbeN("enumerated-corruptions", len(muts))
	w.Probe("nontrivial")
	saved := map[string][]byte{}
	for _, k := range all {
		saved[k] = append([]byte(nil), blob.Peek(k).Data...)
	}
	for _, m := range muts {
		m := m
		blob.Damage(m.key, m.data)
		rfs, _ := newCafs(cl.Store(blob), kn)
		tk := w.Go(cl, "reads", func() (interface{}, error) {
			if v := checkRottenReads(prop, w, rfs, res.Key, content, kn.leaf, []int{0, 1, 2, 3}, t, m.desc); v != nil {
				w.Fail(v)
			}
			return nil, nil
		})
		if v := w.Run(); v != nil {
			if v.Property == "" {
				v.Property = prop
			}
			return v
		}
		if pv := taskProblem(prop, tk, "read of a damaged object ("+m.desc+")"); pv != nil {
			return pv
		}
		blob.Damage(m.key, saved[m.key])
	}
	return nil
}

func init() {
	Register(&Scenario{Prop: "C03", Name: "rot-download", Strict: true, Quick: 6, Thorough: 8, Run: runC03Download})
}

// runC03Download: a bundle is uploaded, one blob of one of its files is damaged at rest, then the
// bundle is downloaded into a local directory. A download that reports success must have written
// exactly the uploaded bytes.
func runC03Download(rc *RunCtx) *simkit.Violation {
	const prop = "C03"
	w := rc.W
	t := w.W
	d := newDM(rc)
	up := w.Client("up")
	if v := createRepo(prop, d, up, "r1"); v != nil {
		return v
	}
	leaf := uint32(t.Pick(64, 100, 1024, 4096, 4096, 65536))
	nFiles := t.Range(1, 5)
	if leaf == 65536 {
		nFiles = t.Range(1, 2) // (single-leaf files larger than io.Copy's 32 KiB buffer)
	}
	tree := drawTree(t, nFiles, leaf, "")
	src := memDisk()
	_ = writeTree(src, tree)
	_, ufn := d.upload(up, d.Stores(up), "r1", src, uploadOpts{leaf: leaf, concUp: t.Pick(1, 4, 20), message: "m"})
	ut, v := doOp(prop, w, up, "upload", ufn)
	if v != nil {
		return v
	}
	if ut.Err != nil {
		return Viol(prop, "harness", "upload", "", "fault-free upload failed: %v", ut.Err)
	}
	ub := ut.Result.(*core.Bundle)
	// damage one blob of one file
	ps := tree.paths()
	victim := ps[t.Choose(len(ps))]
	other := ps[t.Choose(len(ps))]
	leaves, root := blobLayout(tree[victim], leaf)
	oLeaves, oRoot := blobLayout(tree[other], leaf)
	m := drawRot(t, d.Blob, leaves, root, oLeaves, oRoot)
	same := m.data != nil && bytes.Equal(d.Blob.Peek(m.key).Data, m.data)
	d.Blob.Damage(m.key, m.data)
	w.Probe("nontrivial")
	w.Note("bundle of %d files leaf %d; file %q (%d bytes): %s", len(tree), leaf, victim, len(tree[victim]), m.desc)
	rd := w.Client("down")
	useOs := t.Bool(1, 4)
	var dst afero.Fs = memDisk()
	if useOs {
		dst = afero.NewBasePathFs(afero.NewOsFs(), rc.Dir)
	}
	_, pfn := d.downloadFn(d.Stores(rd), "r1", ub.BundleID, dst, downloadOpts{concDown: t.Pick(1, 3, 10)})
	pt, v := doOp(prop, w, rd, "publish", pfn)
	if v != nil {
		return v
	}
	got, err := readTree(dst)
	if err != nil {
		return Viol(prop, "harness", "readTree", "", "%v", err)
	}
	data, _ := splitMeta(got)
	if pt.Err != nil {
		// a failed download must not have written altered bytes: every file it left holds, at each offset, the
		// uploaded byte (or the zero of a range it never wrote)
		for p, g := range data {
			orig, ok := tree[p]
			if !ok {
				return Viol(prop, "corrupt-bytes-written", "Publish", p, "the failed download (%v) left a file %q that is not part of the bundle", pt.Err, p)
			}
			if len(g) > len(orig) {
				return Viol(prop, "corrupt-bytes-written", "Publish", p, "the failed download (%v) left %d bytes in %q, the uploaded file has %d; damage to %q: %s", pt.Err, len(g), p, len(orig), victim, m.desc)
			}
			for i, b := range g {
				if b != orig[i] && b != 0 {
					return Viol(prop, "corrupt-bytes-written", "Publish", p, "the download failed (%v) but had already written altered bytes into %q (offset %d of %d written, file of %d bytes, leaf %d); damage to %q: %s", pt.Err, p, i, len(g), len(orig), leaf, victim, m.desc)
				}
			}
		}
		w.Probe("download-failed")
		return nil
	}
	if df := diffTrees(tree, data); df != "" {
		return Viol(prop, "corrupt-download-accepted", "Publish", victim, "the download reported success but the destination differs from the uploaded tree: %s; damage to %q: %s (identity=%v, os-disk=%v)", df, victim, m.desc, same, useOs)
	}
	w.Probe("download-legitimately-ok")
	return nil
}

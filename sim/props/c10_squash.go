package props

import (
	"fmt"
	"github.com/oneconcern/datamon/pkg/model"
	"sort"
	"strings"
	"time"

	"github.com/oneconcern/datamon/pkg/core"

	"verifsim/simkit"
)

func init() {
	Register(&Scenario{Prop: "C10", Name: "squash", Strict: true, Quick: 10, Thorough: 10, Run: func(rc *RunCtx) *simkit.Violation { return runC10(rc, false) }})
	// one transient store error on any call of the squash (listing pages, label and descriptor reads, deletes): a squash
	// that reports success has kept exactly what it must; one that reports the error is run again
	// (weak replay: how far the listing goroutines of a squash get after one of them failed is not decided by the tape)
	Register(&Scenario{Prop: "C10", Name: "squash-store-error", Strict: false, Quick: 3, Thorough: 4, Run: func(rc *RunCtx) *simkit.Violation {
		c10StoreErr = true
		defer func() { c10StoreErr = false }()
		return runC10(rc, false)
	}})
	Register(&Scenario{Prop: "C10", Name: "squash-crash-rerun", Strict: true, Quick: 3, Thorough: 4, Run: func(rc *RunCtx) *simkit.Violation { return runC10(rc, true) }})
}

var semverLabels = []string{"v1.2.3", "2.0.1", "v0.0.1", "10.20.30"}
var plainLabels = []string{"latest", "prod-x", "golden", "nightly_build"}

// leftover uploads a tree with a client that dies before the bundle descriptor is written.
func leftover(prop string, d *DM, t *simkit.Tape, repo string, leaf uint32, n int) *simkit.Violation {
	w := d.w
	victim := w.Client(fmt.Sprintf("victim%d", n))
	tree := Tree{fmt.Sprintf("left%d", n): append([]byte(fmt.Sprintf("leftover %d ", n)), t.Bytes(t.Range(1, 100))...)}
	bound := uploadWriteBound(tree, leaf)
	cp := t.Range(0, bound-2) // never the descriptor write itself
	if t.Bool(1, 2) {
		cp = bound - 2 // right after the (last) file list
	}
	kind := simkit.FCrashA
	if cp < bound-2 && t.Bool(1, 2) {
		kind = simkit.FCrashB
	}
	src := memDisk()
	_ = writeTree(src, tree)
	_, fn := d.upload(victim, d.Stores(victim), repo, src, uploadOpts{leaf: leaf, concUp: 1, message: "leftover"})
	w.Faults = &simkit.FaultCfg{Plan: []*simkit.Planned{{Client: victim.Name, Nth: cp, Kind: kind}}}
	w.Go(victim, "upload-leftover", fn)
	v := w.Run()
	w.Faults = nil
	if v != nil {
		v.Property = prop
		return v
	}
	if !victim.Dead {
		// dedup made the upload shorter than the bound: it committed; kill nothing, but this is then a real bundle
		return Viol(prop, "harness", "leftover", repo, "leftover upload completed (crash point %d of %d not reached)", cp, bound)
	}
	w.Probe("leftover")
	return nil
}

var c10StoreErr bool

func runC10(rc *RunCtx, crashSquash bool) *simkit.Violation {
	const prop = "C10"
	w := rc.W
	t := w.W
	d := newDM(rc)
	d.VMet.Versioned = t.Bool(1, 3)
	leaf := uint32(64)
	setup := w.Client("setup")
	r := &mRepo{Name: "r1", Labels: map[string]string{}}
	if v := createRepo(prop, d, setup, "r1"); v != nil {
		return v
	}
	// a neighbour repository that must not be touched
	other := &mRepo{Name: "r1-x", Labels: map[string]string{}}
	if v := createRepo(prop, d, setup, other.Name); v != nil {
		return v
	}
	if _, v := addBundle(prop, d, setup, other, Tree{"o": []byte("other")}, leaf, 1); v != nil {
		return v
	}
	if v := addLabel(prop, d, setup, other, "v1.2.3", other.Bundles[0].ID); v != nil {
		return v
	}
	nb := t.Pick(0, 1, 2, 3, 4, 5, 6, 8, 10)
	if t.Bool(1, 15) {
		nb = t.Pick(20, 40)
	}
	nLeft := 0
	// a long-lived writer: its bundle descriptor (and the time stamp in it) is built early, other bundles are committed in
	// the meantime, its own upload - where the bundle id is drawn - runs later: newest by id, not by descriptor time
	type pendingUpload struct {
		b    *core.Bundle
		fn   func() (interface{}, error)
		tree Tree
	}
	var pending *pendingUpload
	commitPending := func() *simkit.Violation {
		time.Sleep(1500 * time.Millisecond)
		tk, v := doOp(prop, w, setup, "upload of a long-lived writer", pending.fn)
		if v != nil {
			return v
		}
		if tk.Err != nil {
			return Viol(prop, "harness", "Upload", "r1", "%v", tk.Err)
		}
		r.Bundles = append(r.Bundles, &mBundle{ID: pending.b.BundleID, Tree: pending.tree, Leaf: leaf})
		pending = nil
		w.Probe("bundle-committed-after-younger-descriptors")
		return nil
	}
	for i := 0; i < nb; i++ {
		switch {
		case pending == nil && t.Bool(1, 5):
			tree := Tree{fmt.Sprintf("slow%d", i): t.Bytes(t.Range(0, 100)), "same": []byte("shared content")}
			src := memDisk()
			_ = src.MkdirAll(".", 0o755)
			_ = writeTree(src, tree)
			b, fn := d.upload(setup, d.Stores(setup), "r1", src, uploadOpts{leaf: leaf, concUp: 2, message: "long-lived writer"})
			pending = &pendingUpload{b: b, fn: fn, tree: tree}
			time.Sleep(1500 * time.Millisecond)
		case pending != nil && t.Bool(1, 2):
			if v := commitPending(); v != nil {
				return v
			}
		}
		if t.Bool(1, 5) {
			if v := leftover(prop, d, t, "r1", leaf, nLeft); v != nil {
				return v
			}
			nLeft++
		}
		tree := Tree{fmt.Sprintf("f%d", i): t.Bytes(t.Range(0, 100)), "same": []byte("shared content")}
		if _, v := addBundle(prop, d, setup, r, tree, leaf, 2); v != nil {
			return v
		}
	}
	if pending != nil {
		if v := commitPending(); v != nil {
			return v
		}
	}
	if nb > 0 && t.Bool(1, 3) {
		// the newest thing in the repository is a leftover
		if v := leftover(prop, d, t, "r1", leaf, nLeft); v != nil {
			return v
		}
		nLeft++
		w.Probe("leftover-is-newest")
	}
	nl := 0
	if nb > 0 {
		nl = t.Range(0, 6)
	}
	for i := 0; i < nl; i++ {
		var name string
		if t.Bool(1, 2) {
			name = semverLabels[t.Choose(len(semverLabels))]
		} else {
			name = plainLabels[t.Choose(len(plainLabels))]
		}
		if v := addLabel(prop, d, setup, r, name, r.Bundles[t.Choose(len(r.Bundles))].ID); v != nil {
			return v
		}
	}
	retainN := t.Range(1, 5)
	mode := t.Choose(3) // 0 none, 1 retain tags, 2 retain semver tags
	opts := []core.Option{core.WithRetainNLatest(retainN), core.BatchSize(t.Pick(1, 2, 5, 1024)), core.ConcurrentList(t.Pick(1, 4))}
	switch mode {
	case 1:
		opts = append(opts, core.WithRetainTags(true))
	case 2:
		opts = append(opts, core.WithRetainSemverTags(true))
	}
	// expected survivors
	ids := r.ids()
	keep := map[string]bool{}
	for i := len(ids) - 1; i >= 0 && i >= len(ids)-retainN; i-- {
		keep[ids[i]] = true
	}
	for n, id := range r.Labels {
		isSemver := false
		for _, s := range semverLabels {
			if s == n {
				isSemver = true
			}
		}
		if mode == 1 || (mode == 2 && isSemver) {
			keep[id] = true
		}
	}
	w.Note("%d committed bundles, %d leftovers, labels %v; squash retain=%d mode=%d -> keep %d", len(ids), nLeft, labelsShort(r.Labels), retainN, mode, len(keep))
	before := snapshotExcept(d, "r1")
	sq := w.Client("squasher")
	if crashSquash {
		w.Faults = &simkit.FaultCfg{Plan: []*simkit.Planned{{Client: "squasher", Nth: t.Range(0, 12), Kind: simkit.Kind(int(simkit.FCrashB) + t.Choose(2))}}}
	}
	if c10StoreErr {
		w.Faults = &simkit.FaultCfg{Plan: []*simkit.Planned{{Client: "squasher", Nth: t.Range(0, 40), Any: true, Kind: simkit.FErr}}}
	}
	tk := w.Go(sq, "squash", func() (interface{}, error) { return nil, core.RepoSquash(d.Stores(sq), "r1", opts...) })
	if v := w.Run(); v != nil {
		v.Property = prop
		return v
	}
	w.Faults = nil
	interrupted := sq.Dead
	if c10StoreErr && fired(w) {
		if tk.Err != nil {
			interrupted = true
			w.Probe("squash-reported-the-store-error")
		} else {
			w.Probe("squash-succeeded-despite-store-error")
		}
	}
	if interrupted {
		w.Probe("squash-crashed")
		sq2 := w.Client("squasher2")
		tk, _ = doOp(prop, w, sq2, "squash-rerun", func() (interface{}, error) { return nil, core.RepoSquash(d.Stores(sq2), "r1", opts...) })
		if v := w.Violation(); v != nil {
			return v
		}
	}
	if pv := taskProblem(prop, tk, "RepoSquash"); pv != nil {
		return pv
	}
	if tk.Err != nil {
		return Viol(prop, "op-failed", "RepoSquash", "r1", "fault-free RepoSquash failed: %v", tk.Err)
	}
	w.Probe("nontrivial")
	if c10StoreErr && fired(w) && !interrupted {
		// the squash met a store error and still reported success. What it leaves of the bundles it removes is not
		// asserted (it ignores failed deletions on purpose; C10 does not quantify over store errors) - what it must KEEP is:
		// every bundle to keep is still listed and downloads to its content, with its labels
		for _, mb := range append([]*mBundle(nil), r.Bundles...) {
			if !keep[mb.ID] {
				continue
			}
			if d.Meta.Peek("bundles/r1/"+mb.ID+"/bundle.yaml") == nil {
				return Viol(prop, "kept-bundle-removed", "RepoSquash-store-error", mb.ID, "[squash retain=%d mode=%d, one store error, squash reported success] bundle %s had to be kept and is gone", retainN, mode, mb.ID)
			}
			dst := memDisk()
			_, fn := d.downloadFn(d.Stores(sq), "r1", mb.ID, dst, downloadOpts{concDown: 2})
			pt, v := doOp(prop, w, w.Client("observer"), "publish "+mb.ID, fn)
			if v != nil {
				return v
			}
			got, _ := readTree(dst)
			data, _ := splitMeta(got)
			if pt.Err != nil || diffTrees(mb.Tree, data) != "" {
				return Viol(prop, "kept-bundle-removed", "RepoSquash-store-error", mb.ID, "[squash retain=%d mode=%d, one store error, squash reported success] kept bundle %s no longer downloads to its content: %v %s", retainN, mode, mb.ID, pt.Err, diffTrees(mb.Tree, data))
			}
		}
		for n, id := range r.Labels {
			if keep[id] && d.VMet.Peek(model.GetArchivePathToLabel("r1", n)) == nil {
				return Viol(prop, "label-of-kept-bundle-removed", "RepoSquash-store-error", n, "[one store error, squash reported success] label %q of kept bundle %s is gone", n, id)
			}
		}
		return nil
	}
	if df := diffSnap(before, snapshotExcept(d, "r1")); df != "" {
		return Viol(prop, "other-repo-touched", "RepoSquash", df, "RepoSquash(r1) %s", df)
	}
	// the model after squash
	newest := ""
	if len(ids) > 0 {
		newest = ids[len(ids)-1]
	}
	for _, id := range ids {
		if !keep[id] {
			r.remove(id)
			if c10StoreErr && fired(w) {
				// under a store error squash may leave a file list behind (it ignores failed deletions of file lists on
				// purpose): that is the leftover of a removed bundle, not a bundle - only the descriptor must be gone
				if d.Meta.Peek("bundles/r1/"+id+"/bundle.yaml") != nil {
					return Viol(prop, "squashed-bundle-remains", "RepoSquash", id, "bundle %s is not among those to keep but its descriptor remains", id)
				}
			} else if left := d.Meta.KeysWithPrefix("bundles/r1/" + id + "/"); len(left) > 0 {
				return Viol(prop, "squashed-bundle-remains", "RepoSquash", id, "bundle %s is not among those to keep but %d of its objects remain (first %s)", id, len(left), left[0])
			}
		}
	}
	dangling := map[string]*mBundle{}
	for n, id := range r.Labels {
		if !keep[id] {
			delete(r.Labels, n)
			if interrupted {
				// C10 does not quantify over a crash of the squash itself: a label the interrupted run did not
				// get to remove may remain after the re-run (observed: the re-run returns early when no bundle
				// is left to squash)
				dangling["label:"+n] = nil
			}
		}
	}
	if newest != "" && d.Meta.Peek("bundles/r1/"+newest+"/bundle.yaml") == nil {
		return Viol(prop, "newest-bundle-removed", "RepoSquash", newest, "the most recent committed bundle %s was removed by squash (retain=%d, %d leftovers present)", newest, retainN, nLeft)
	}
	obs := w.Client("observer")
	// visible bundles must be exactly the kept ones, each downloading to its content; labels exactly those of kept bundles
	if v := observe(prop, d, obs, r, dangling, t, true); v != nil {
		switch v.Class {
		case "committed-bundle-lost":
			v.Class = "kept-bundle-removed"
		case "partial-bundle-visible":
			v.Class = "squashed-bundle-remains"
		case "label-foreign":
			v.Class = "label-of-removed-bundle-remains"
		case "label-changed":
			v.Class = "label-of-kept-bundle-removed"
		}
		v.Message = fmt.Sprintf("[squash retain=%d mode=%d of %d bundles, %d leftovers] %s", retainN, mode, len(ids), nLeft, v.Message)
		return v
	}
	return observe(prop, d, w.Client("observer-other"), other, nil, t, false)
}

func labelsShort(m map[string]string) string {
	var out []string
	for _, n := range sortedKeys(m) {
		out = append(out, n+"->"+tail4(m[n]))
	}
	sort.Strings(out)
	return strings.Join(out, ",")
}

package props

import (
	"fmt"
	"sync"

	"github.com/oneconcern/datamon/pkg/core"
	"github.com/oneconcern/datamon/pkg/model"
	"github.com/spf13/afero"

	"verifsim/simkit"
)

func init() {
	Register(&Scenario{Prop: "C15", Name: "concurrent-ops", Strict: false, Quick: 10, Thorough: 10, Run: func(rc *RunCtx) *simkit.Violation { return runC15(rc) }})
	// mode A with the in-memory yield points of pkg/cafs switched on (readers holding pinned leaf buffers can be overtaken)
	Register(&Scenario{Prop: "C15", Name: "concurrent-ops-yields", Strict: false, Quick: 3, Thorough: 4, Cfg: simkit.Config{Yields: true}, Run: func(rc *RunCtx) *simkit.Violation { return runC15(rc) }})
	// mode B: the same workloads with the scheduler off (stores answer at once, real parallelism), meant for the
	// -race build: runtime detection, not simulation (DESIGN §6 C15)
	Register(&Scenario{Prop: "C15", Name: "race-stress", Strict: false, Quick: 0, Thorough: 0, NoBubble: true, Run: func(rc *RunCtx) *simkit.Violation { return runC15(rc) }})
}

func runC15(rc *RunCtx) *simkit.Violation {
	const prop = "C15"
	w := rc.W
	t := w.W
	d := newDM(rc)
	d.CRC = t.Bool(2, 3)
	leaf := uint32(t.Pick(64, 1024))
	setup := w.Client("setup")
	if w.Cfg.Immediate {
		osDiskRoot, osDiskSeq = rc.Dir, 0
		defer func() { osDiskRoot = "" }()
	}
	// shared content pool: heavy overlap between everything that is stored
	var pool [][]byte
	for i := 0; i < 5; i++ {
		sz := t.Pick(0, 30, 64, 200)
		if i == 4 {
			sz = t.Pick(200, 640, 900) // with 64-byte leaves: more leaves than the writer flushes concurrently
		}
		pool = append(pool, append([]byte(fmt.Sprintf("pool %d ", i)), t.Bytes(sz)...))
	}
	drawT := func(salt string) Tree {
		tr := Tree{}
		for i := 0; i < t.Range(1, 4); i++ {
			tr[fmt.Sprintf("%s/f%d", salt, i)] = pool[t.Choose(len(pool))]
		}
		tr["common"] = pool[0]
		return tr
	}
	repos := map[string]*mRepo{}
	for _, rn := range []string{"r1", "r2"} {
		if v := createRepo(prop, d, setup, rn); v != nil {
			return v
		}
		repos[rn] = &mRepo{Name: rn, Labels: map[string]string{}}
	}
	b0, v := addBundle(prop, d, setup, repos["r1"], drawT("b0"), leaf, 4)
	if v != nil {
		return v
	}
	// a diamond whose splits are complete (to be committed concurrently) and one that receives splits concurrently
	mkDiamond := func() (string, *simkit.Violation) {
		ct, v := doOp(prop, w, setup, "diamond-init", createDiamondFn(d.Stores(setup), "r2"))
		if v != nil {
			return "", v
		}
		if ct.Err != nil {
			return "", Viol(prop, "harness", "CreateDiamond", "", "%v", ct.Err)
		}
		return ct.Result.(string), nil
	}
	dDone, v := mkDiamond()
	if v != nil {
		return v
	}
	dOpen, v := mkDiamond()
	if v != nil {
		return v
	}
	doneTrees := []Tree{drawT("s0"), drawT("s1")}
	for i, tr := range doneTrees {
		src := memDisk()
		_ = writeTree(src, tr)
		st, v := doOp(prop, w, setup, "split-add", splitAddFn(d.Stores(setup), "r2", dDone, "", src, 2, leaf, nil))
		if v != nil {
			return v
		}
		if st.Err != nil {
			return Viol(prop, "harness", "split add", fmt.Sprint(i), "%v", st.Err)
		}
	}

	n := t.Range(2, 8)
	if rc.Thorough() || w.Cfg.Immediate {
		n = t.Range(2, 16)
	}
	type opRes struct {
		kind  string
		repo  string
		tree  Tree
		task  *simkit.Task
		dst   afero.Fs
		label string
	}
	var ops []*opRes
	var mu sync.Mutex
	_ = mu
	committed := false
	for i := 0; i < n; i++ {
		c := w.Client(fmt.Sprintf("op%d", i))
		st := d.Stores(c)
		o := &opRes{}
		switch k := t.Pick(0, 0, 1, 2, 3, 4); {
		case k == 0: // upload
			o.kind, o.repo, o.tree = "upload", []string{"r1", "r2"}[t.Choose(2)], drawT(fmt.Sprintf("u%d", i))
			src := memDisk()
			_ = writeTree(src, o.tree)
			_, fn := d.upload(c, st, o.repo, src, uploadOpts{leaf: leaf, concUp: t.Pick(1, 4, 20), message: "c15"})
			o.task = w.Go(c, "upload", fn)
		case k == 1: // split upload into the open diamond
			o.kind, o.tree = "split", drawT(fmt.Sprintf("s%d", i))
			src := memDisk()
			_ = writeTree(src, o.tree)
			o.task = w.Go(c, "split-add", splitAddFn(st, "r2", dOpen, "", src, t.Pick(1, 4), leaf, nil))
		case k == 2: // download of an existing bundle
			o.kind = "download"
			dst := memDisk()
			o.dst = dst
			_, fn := d.downloadFn(st, "r1", b0.ID, dst, downloadOpts{concDown: t.Pick(1, 3, 10)})
			o.task = w.Go(c, "download", fn)
		case k == 3: // label set
			o.kind, o.label = "label", fmt.Sprintf("l%d", t.Choose(3))
			o.task = w.Go(c, "label-set", setLabelFn(st, "r1", o.label, b0.ID))
		case k == 4 && !committed: // commit of the complete diamond
			committed = true
			o.kind = "commit"
			o.task = w.Go(c, "commit", commitFn(st, "r2", dDone, model.IgnoreConflicts, leaf, nil))
		default:
			o.kind = "list"
			o.task = w.Go(c, "list", func() (interface{}, error) { return core.ListBundles("r1", st, core.BatchSize(2)) })
		}
		ops = append(ops, o)
	}
	kinds := map[string]int{}
	for _, o := range ops {
		kinds[o.kind]++
	}
	w.Note("%d concurrent operations %v (leaf %d)", n, kinds, leaf)
	if v := w.Run(); v != nil {
		if v.Property == "" {
			v.Property = prop
		}
		if v.Class == "deadlock" || v.Class == "step-cap" {
			v.Discr = "concurrent-operations"
		}
		return v
	}
	// every operation completed, with the result it has alone
	for _, o := range ops {
		if pv := taskProblem(prop, o.task, o.kind); pv != nil {
			return pv
		}
		if o.task.Err != nil {
			return Viol(prop, "operation-failed", o.kind, "", "a %s running next to %d other operations failed: %v", o.kind, n-1, o.task.Err)
		}
	}
	w.Probe("nontrivial")
	obs := w.Client("observer")
	for _, o := range ops {
		switch o.kind {
		case "upload":
			id := o.task.Result.(*core.Bundle).BundleID
			dst := memDisk()
			_, fn := d.downloadFn(d.Stores(obs), o.repo, id, dst, downloadOpts{concDown: 3})
			pt, v := doOp(prop, w, obs, "check-upload", fn)
			if v != nil {
				return v
			}
			if pt.Err != nil {
				return Viol(prop, "result-differs", "upload", id, "a bundle uploaded next to %d other operations cannot be downloaded: %v", n-1, pt.Err)
			}
			got, _ := readTree(dst)
			data, _ := splitMeta(got)
			if df := diffTrees(o.tree, data); df != "" {
				return Viol(prop, "result-differs", "upload", id, "a bundle uploaded next to %d other operations differs from its source: %s", n-1, df)
			}
		case "download":
			got, _ := readTree(o.dst)
			data, _ := splitMeta(got)
			if df := diffTrees(b0.Tree, data); df != "" {
				return Viol(prop, "result-differs", "download", b0.ID, "a download running next to %d other operations differs from the bundle: %s", n-1, df)
			}
		case "label":
			gt, v := doOp(prop, w, obs, "check-label", getLabelFn(d.Stores(obs), "r1", o.label))
			if v != nil {
				return v
			}
			if gt.Err != nil || gt.Result.(string) != b0.ID {
				return Viol(prop, "result-differs", "label", o.label, "label %q set next to %d other operations resolves to %v (err %v)", o.label, n-1, gt.Result, gt.Err)
			}
		case "commit":
			res := o.task.Result.(commitRes)
			em, _, v := bundleEntryMap(prop, d, obs, "r2", res.BundleID)
			if v != nil {
				return v
			}
			splits, err := readDoneSplits(d.VMet, "r2", dDone)
			if err != nil {
				return Viol(prop, "result-differs", "commit", dDone, "%v", err)
			}
			if cls, obj, msg := checkMerge(em, splits, model.IgnoreConflicts); cls != "" {
				return Viol(prop, "result-differs", "commit", obj, "a commit running next to %d other operations: %s", n-1, msg)
			}
		}
	}
	// the splits uploaded concurrently are all complete
	done, err := readDoneSplits(d.VMet, "r2", dOpen)
	if err != nil {
		return Viol(prop, "result-differs", "split", dOpen, "%v", err)
	}
	if len(done) != kinds["split"] {
		return Viol(prop, "result-differs", "split", dOpen, "%d splits uploaded concurrently, %d are complete", kinds["split"], len(done))
	}
	return nil
}

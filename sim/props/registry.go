// Package props holds one scenario set per property: workload generators, oracles and
// reference-model checks that drive the real datamon code inside a simkit.World.
package props

import (
	"fmt"
	"sort"
	"testing"

	"verifsim/simkit"
)

// RunCtx is what a scenario gets for one run.
type RunCtx struct {
	T    *testing.T
	W    *simkit.World
	Tier string // quick | thorough
	Dir  string // private real temp directory of this run (removed afterwards)
	Prop string
}

// Thorough tells whether the thorough tier is running.
func (rc *RunCtx) Thorough() bool { return rc.Tier == "thorough" }

// Scenario is one generator + oracle for a property.
type Scenario struct {
	Prop   string
	Name   string
	Strict bool // strict-replay: the event log must be byte-identical on replay
	// Weight is the relative share of runs in each tier (0 = not run in that tier).
	Quick    int
	Thorough int
	// NoBubble scenarios run outside synctest (race-stress mode, real clock).
	NoBubble bool
	Cfg      simkit.Config
	Run      func(rc *RunCtx) *simkit.Violation
}

var registry = map[string][]*Scenario{}

// Register adds a scenario.
func Register(s *Scenario) {
	registry[s.Prop] = append(registry[s.Prop], s)
}

// For returns the scenarios of a property.
func For(prop string) []*Scenario { return registry[prop] }

// Props lists registered property ids.
func Props() []string {
	var out []string
	for k := range registry {
		out = append(out, k)
	}
	sort.Strings(out)
	return out
}

// Find returns a scenario by property and name.
func Find(prop, name string) *Scenario {
	for _, s := range registry[prop] {
		if s.Name == name {
			return s
		}
	}
	return nil
}

// Viol builds a violation for a property.
func Viol(prop, class, discr, object, format string, a ...interface{}) *simkit.Violation {
	return &simkit.Violation{Property: prop, Class: class, Discr: discr, Object: object, Message: fmt.Sprintf(format, a...)}
}

package props

import (
	"bytes"
	"fmt"
	"os"
	"sort"
	"strings"
	"syscall"

	jfuse "github.com/jacobsa/fuse"
	"github.com/jacobsa/fuse/fuseops"
	"github.com/jacobsa/fuse/fuseutil"
	"github.com/oneconcern/datamon/pkg/core"
	dfuse "github.com/oneconcern/datamon/pkg/fuse"
	"github.com/oneconcern/datamon/pkg/model"
	"github.com/spf13/afero"

	"verifsim/simkit"
)

func init() {
	Register(&Scenario{Prop: "C18", Name: "rw-mount", Strict: false, Quick: 10, Thorough: 10, Run: runC18})
}

// mNode is a node of the reference POSIX tree.
type mNode struct {
	dir      bool
	data     []byte
	children map[string]*mNode
	parent   *mNode
	name     string
	ino      fuseops.InodeID // what the mount calls it
	lookups  int             // references the kernel holds on ino (lookup count)
	linked   bool
}

func (n *mNode) path() string {
	if n.parent == nil {
		return ""
	}
	p := n.parent.path()
	if p == "" {
		return n.name
	}
	return p + "/" + n.name
}

func errnoName(err error) string {
	if err == nil {
		return "ok"
	}
	if e, ok := err.(syscall.Errno); ok {
		switch e {
		case syscall.ENOENT:
			return "ENOENT"
		case syscall.EEXIST:
			return "EEXIST"
		case syscall.ENOTEMPTY:
			return "ENOTEMPTY"
		case syscall.ENOTDIR:
			return "ENOTDIR"
		case syscall.EISDIR:
			return "EISDIR"
		case syscall.EIO:
			return "EIO"
		case syscall.ENOSYS:
			return "ENOSYS"
		case syscall.EINVAL:
			return "EINVAL"
		}
		return fmt.Sprintf("errno(%d)", int(e))
	}
	return "error(" + err.Error() + ")"
}

// posixNlink is st_nlink of a POSIX tree without hard links: 1 for a file, 2 + the number of sub-directories for a directory.
func (n *mNode) posixNlink() uint32 {
	if !n.dir {
		return 1
	}
	k := uint32(2)
	for _, c := range n.children {
		if c.dir {
			k++
		}
	}
	return k
}

func runC18(rc *RunCtx) *simkit.Violation {
	const prop = "C18"
	w := rc.W
	t := w.W
	d := newDM(rc)
	setup := w.Client("setup")
	if v := createRepo(prop, d, setup, "r1"); v != nil {
		return v
	}
	staging := rc.Dir + "/staging"
	_ = os.MkdirAll(staging, 0o755)
	mc := w.Client("mount")
	bd := model.NewBundleDescriptor(model.Message("from a mutable mount"))
	leaf := uint32(t.Pick(64, 1024, 0))
	if leaf != 0 {
		bd.LeafSize = leaf
	}
	bundle := core.NewBundle(core.Repo("r1"), core.ContextStores(d.Stores(mc)), core.ConsumableStore(localStore(afero.NewBasePathFs(afero.NewOsFs(), staging))), core.BundleDescriptor(bd), core.Logger(nopLog))
	mfs, err := dfuse.NewMutableFS(bundle, dfuse.Logger(nopLog))
	if err != nil {
		return Viol(prop, "mount-failed", "NewMutableFS", "", "%v", err)
	}
	fs := internalFS(mfs)

	root := &mNode{dir: true, children: map[string]*mNode{}, ino: fuseops.RootInodeID, lookups: 1 << 30, linked: true}
	names := []string{"a", "b", "c", "d"}
	var trace []string
	note := func(f string, a ...interface{}) {
		s := fmt.Sprintf(f, a...)
		trace = append(trace, s)
		w.Note("%s", s)
	}
	tr := func() string {
		if len(trace) > 14 {
			return strings.Join(trace[len(trace)-14:], "; ")
		}
		return strings.Join(trace, "; ")
	}
	// every node the kernel may still name: linked nodes with lookups > 0, and unlinked ones not yet forgotten
	var known []*mNode
	known = append(known, root)
	live := func(f func(*mNode) bool) []*mNode {
		var out []*mNode
		for _, n := range known {
			if n.linked && n.lookups > 0 && (n.parent == nil || n.parent.lookups > 0) && f(n) {
				out = append(out, n)
			}
		}
		return out
	}
	checkUnique := func(after string) *simkit.Violation {
		seen := map[fuseops.InodeID]*mNode{}
		for _, n := range known {
			if !n.linked || n.ino == 0 {
				continue
			}
			if o, dup := seen[n.ino]; dup {
				return Viol(prop, "duplicate-inode", "create", n.path(), "after %s, the live entries %q and %q both have inode %d (history: %s)", after, o.path(), n.path(), n.ino, tr())
			}
			seen[n.ino] = n
		}
		return nil
	}
	var out *simkit.Violation
	steps := t.Range(5, 60)
	tk, v := doOp(prop, w, mc, "program", func() (interface{}, error) {
		for i := 0; i < steps && out == nil; i++ {
			dirs := live(func(n *mNode) bool { return n.dir })
			files := live(func(n *mNode) bool { return !n.dir })
			// files that were unlinked (or replaced by a rename) but are still referenced by the kernel - an open file
			// descriptor: POSIX keeps them readable and writable until the last reference goes
			var orphans []*mNode
			for _, n := range known {
				if !n.dir && !n.linked && n.lookups > 0 && n.ino != 0 {
					orphans = append(orphans, n)
				}
			}
			ioTargets := files
			if len(orphans) > 0 && t.Bool(1, 3) {
				ioTargets = orphans
				w.Probe("io-on-unlinked-open-file")
			}
			switch k := t.Pick(0, 0, 1, 1, 2, 2, 3, 4, 5, 6, 7, 8, 9, 10); k {
			case 0, 1: // create file / mkdir under a known directory, on a free name (the VFS answers EEXIST itself)
				p := dirs[t.Choose(len(dirs))]
				name := names[t.Choose(len(names))]
				if p.children[name] != nil {
					continue
				}
				n := &mNode{dir: k == 1, parent: p, name: name, linked: true, lookups: 1}
				var entry fuseops.ChildInodeEntry
				var err error
				if n.dir {
					n.children = map[string]*mNode{}
					op := &fuseops.MkDirOp{Parent: p.ino, Name: name, Mode: 0o755 | os.ModeDir}
					err = fs.MkDir(bg, op)
					entry = op.Entry
					note("mkdir %s/%s -> %s ino %d", p.path(), name, errnoName(err), entry.Child)
				} else {
					op := &fuseops.CreateFileOp{Parent: p.ino, Name: name, Mode: 0o644}
					err = fs.CreateFile(bg, op)
					entry = op.Entry
					note("create %s/%s -> %s ino %d", p.path(), name, errnoName(err), entry.Child)
				}
				if err != nil {
					out = Viol(prop, "errno", map[bool]string{true: "MkDir", false: "CreateFile"}[n.dir], p.path()+"/"+name, "creating %q in an existing directory on a free name returns %s (history: %s)", name, errnoName(err), tr())
					return nil, nil
				}
				n.ino = entry.Child
				if n.dir != (entry.Attributes.Mode&os.ModeDir != 0) {
					out = Viol(prop, "attr-type", "create", n.path(), "created %q: directory=%v, mode says %v", n.path(), n.dir, entry.Attributes.Mode)
					return nil, nil
				}
				p.children[name] = n
				known = append(known, n)
				if v := checkUnique("creating " + n.path()); v != nil {
					out = v
					return nil, nil
				}
			case 2: // write
				if len(ioTargets) == 0 {
					continue
				}
				f := ioTargets[t.Choose(len(ioTargets))]
				off := t.Pick(0, 0, len(f.data), len(f.data)+3, t.Range(0, len(f.data)+1))
				data := t.Bytes(t.Pick(1, 10, 100, 5000))
				// open / write / (fsync) / flush / release, as the kernel drives a write(2) + close(2)
				err := fs.OpenFile(bg, &fuseops.OpenFileOp{Inode: f.ino})
				if err == nil {
					err = fs.WriteFile(bg, &fuseops.WriteFileOp{Inode: f.ino, Offset: int64(off), Data: data})
				}
				if err == nil && t.Bool(1, 3) {
					err = fs.SyncFile(bg, &fuseops.SyncFileOp{Inode: f.ino})
				}
				if err == nil {
					err = fs.FlushFile(bg, &fuseops.FlushFileOp{Inode: f.ino})
				}
				if err == nil {
					err = fs.ReleaseFileHandle(bg, &fuseops.ReleaseFileHandleOp{})
				}
				note("write %s off %d len %d -> %s", f.path(), off, len(data), errnoName(err))
				if err != nil {
					out = Viol(prop, "errno", "WriteFile", f.path(), "writing %d bytes at %d to an existing file returns %s (history: %s)", len(data), off, errnoName(err), tr())
					return nil, nil
				}
				if need := off + len(data); need > len(f.data) {
					f.data = append(f.data, make([]byte, need-len(f.data))...)
				}
				copy(f.data[off:], data)
			case 3: // truncate / extend
				if len(ioTargets) == 0 {
					continue
				}
				f := ioTargets[t.Choose(len(ioTargets))]
				sz := uint64(t.Pick(0, len(f.data)/2, len(f.data), len(f.data)+17))
				err := fs.SetInodeAttributes(bg, &fuseops.SetInodeAttributesOp{Inode: f.ino, Size: &sz})
				note("truncate %s to %d -> %s", f.path(), sz, errnoName(err))
				if err != nil {
					out = Viol(prop, "errno", "SetInodeAttributes", f.path(), "truncating an existing file to %d returns %s (history: %s)", sz, errnoName(err), tr())
					return nil, nil
				}
				if int(sz) <= len(f.data) {
					f.data = f.data[:sz]
				} else {
					f.data = append(f.data, make([]byte, int(sz)-len(f.data))...)
				}
			case 4: // read, also across and at EOF (the kernel asks for whole pages)
				if len(ioTargets) == 0 {
					continue
				}
				f := ioTargets[t.Choose(len(ioTargets))]
				if len(f.data) == 0 {
					continue // the kernel knows the size and answers reads at or past EOF itself
				}
				off := t.Pick(0, 0, len(f.data)/2, len(f.data)-1)
				ln := t.Pick(1, 64, 4096, 8192)
				op := &fuseops.ReadFileOp{Inode: f.ino, Offset: int64(off), Dst: make([]byte, ln)}
				err := fs.OpenFile(bg, &fuseops.OpenFileOp{Inode: f.ino})
				if err == nil {
					err = fs.ReadFile(bg, op)
				}
				if err == nil {
					err = fs.FlushFile(bg, &fuseops.FlushFileOp{Inode: f.ino})
				}
				if err == nil {
					err = fs.ReleaseFileHandle(bg, &fuseops.ReleaseFileHandleOp{})
				}
				var want []byte
				if off < len(f.data) {
					want = f.data[off:min(len(f.data), off+ln)]
				}
				if err != nil {
					d := "ReadFile"
					if off+ln > len(f.data) {
						d = "ReadFile-across-EOF"
					}
					out = Viol(prop, "errno", d, f.path(), "reading %d bytes at %d from a %d-byte file returns %s, POSIX reads %d bytes (history: %s)", ln, off, len(f.data), errnoName(err), len(want), tr())
					return nil, nil
				}
				if op.BytesRead != len(want) || !bytes.Equal(op.Dst[:op.BytesRead], want) {
					out = Viol(prop, "read-wrong", "ReadFile", f.path(), "read %d bytes at %d of a %d-byte file: got %d bytes, equal=%v (history: %s)", ln, off, len(f.data), op.BytesRead, bytes.Equal(op.Dst[:min(op.BytesRead, len(want))], want[:min(op.BytesRead, len(want))]), tr())
					return nil, nil
				}
			case 5: // lookup (existing or missing name)
				p := dirs[t.Choose(len(dirs))]
				name := names[t.Choose(len(names))]
				op := &fuseops.LookUpInodeOp{Parent: p.ino, Name: name}
				err := fs.LookUpInode(bg, op)
				c := p.children[name]
				note("lookup %s/%s -> %s ino %d", p.path(), name, errnoName(err), op.Entry.Child)
				switch {
				case c == nil && err != jfuse.ENOENT:
					out = Viol(prop, "errno", "LookUpInode-missing", p.path()+"/"+name, "lookup of a name that does not exist returns %s (inode %d) (history: %s)", errnoName(err), op.Entry.Child, tr())
					return nil, nil
				case c != nil && err != nil:
					out = Viol(prop, "errno", "LookUpInode", c.path(), "lookup of an existing entry returns %s (history: %s)", errnoName(err), tr())
					return nil, nil
				case c != nil:
					if c.ino != op.Entry.Child {
						out = Viol(prop, "inode-changed", "LookUpInode", c.path(), "entry %q was created as inode %d, lookup now says %d (history: %s)", c.path(), c.ino, op.Entry.Child, tr())
						return nil, nil
					}
					c.lookups++
					if want := c.posixNlink(); op.Entry.Attributes.Nlink != want {
						out = Viol(prop, "attr-nlink", "LookUpInode", c.path(), "%q: the mount says st_nlink %d, a POSIX tree says %d (directory=%v) (history: %s)", c.path(), op.Entry.Attributes.Nlink, want, c.dir, tr())
						return nil, nil
					}
					if c.dir != (op.Entry.Attributes.Mode&os.ModeDir != 0) || (!c.dir && op.Entry.Attributes.Size != uint64(len(c.data))) {
						out = Viol(prop, "attr-wrong", "LookUpInode", c.path(), "%q: directory=%v size %d in the model, mode %v size %d on the mount (history: %s)", c.path(), c.dir, len(c.data), op.Entry.Attributes.Mode, op.Entry.Attributes.Size, tr())
						return nil, nil
					}
				}
			case 6: // unlink a file
				if len(files) == 0 {
					continue
				}
				f := files[t.Choose(len(files))]
				err := fs.Unlink(bg, &fuseops.UnlinkOp{Parent: f.parent.ino, Name: f.name})
				note("unlink %s -> %s", f.path(), errnoName(err))
				if err != nil {
					out = Viol(prop, "errno", "Unlink", f.path(), "unlinking an existing file returns %s (history: %s)", errnoName(err), tr())
					return nil, nil
				}
				delete(f.parent.children, f.name)
				f.linked = false
			case 7: // rmdir
				var cands []*mNode
				for _, n := range dirs {
					if n != root {
						cands = append(cands, n)
					}
				}
				if len(cands) == 0 {
					continue
				}
				dn := cands[t.Choose(len(cands))]
				err := fs.RmDir(bg, &fuseops.RmDirOp{Parent: dn.parent.ino, Name: dn.name})
				note("rmdir %s (%d children) -> %s", dn.path(), len(dn.children), errnoName(err))
				want := error(nil)
				if len(dn.children) > 0 {
					want = jfuse.ENOTEMPTY
				}
				if err != want {
					out = Viol(prop, "errno", "RmDir", dn.path(), "rmdir of a directory with %d children returns %s, POSIX says %s (history: %s)", len(dn.children), errnoName(err), errnoName(want), tr())
					return nil, nil
				}
				if err == nil {
					delete(dn.parent.children, dn.name)
					dn.linked = false
				}
			case 8: // rename: onto a free name, or a file onto an existing file
				all := live(func(n *mNode) bool { return n != root })
				if len(all) == 0 {
					continue
				}
				src := all[t.Choose(len(all))]
				np := dirs[t.Choose(len(dirs))]
				nn := names[t.Choose(len(names))]
				if np == src.parent && nn == src.name {
					continue // same entry: the VFS returns without calling the file system
				}
				// a directory cannot move into itself (VFS: EINVAL)
				inside := false
				for q := np; q != nil; q = q.parent {
					if q == src {
						inside = true
					}
				}
				if inside {
					continue
				}
				tgt := np.children[nn]
				if tgt != nil && (tgt.dir || src.dir) {
					continue // type mismatches are answered by the VFS; directory-over-directory is not generated
				}
				err := fs.Rename(bg, &fuseops.RenameOp{OldParent: src.parent.ino, OldName: src.name, NewParent: np.ino, NewName: nn})
				note("rename %s -> %s/%s (target exists=%v) -> %s", src.path(), np.path(), nn, tgt != nil, errnoName(err))
				if err != nil {
					out = Viol(prop, "errno", "Rename", src.path(), "renaming an existing entry returns %s (history: %s)", errnoName(err), tr())
					return nil, nil
				}
				if tgt != nil {
					tgt.linked = false
				}
				delete(src.parent.children, src.name)
				src.parent, src.name = np, nn
				np.children[nn] = src
			case 9: // the kernel drops its references: unlinked nodes always, live ones now and then (cache pressure)
				var cands []*mNode
				pinned := map[*mNode]bool{} // a referenced entry pins its ancestors in the kernel's cache
				for _, n := range known {
					if n.linked && n.lookups > 0 {
						for q := n.parent; q != nil; q = q.parent {
							pinned[q] = true
						}
					}
				}
				for _, n := range known {
					if n != root && n.lookups > 0 && (!n.linked || (!pinned[n] && t.Bool(1, 3))) {
						cands = append(cands, n)
					}
				}
				if len(cands) == 0 {
					continue
				}
				n := cands[t.Choose(len(cands))]
				cnt := n.lookups
				note("forget %s ino %d x%d (linked=%v)", n.path(), n.ino, cnt, n.linked)
				for j := 0; j < cnt; j++ {
					if err := fs.ForgetInode(bg, &fuseops.ForgetInodeOp{Inode: n.ino}); err != nil {
						out = Viol(prop, "errno", "ForgetInode", n.path(), "forget returns %s", errnoName(err))
						return nil, nil
					}
				}
				n.lookups = 0
			default: // getattr + readdir of a known directory
				p := dirs[t.Choose(len(dirs))]
				ga := &fuseops.GetInodeAttributesOp{Inode: p.ino}
				if err := fs.GetInodeAttributes(bg, ga); err != nil || ga.Attributes.Mode&os.ModeDir == 0 {
					out = Viol(prop, "errno", "GetInodeAttributes", p.path(), "getattr of a live directory: %s mode %v (history: %s)", errnoName(err), ga.Attributes.Mode, tr())
					return nil, nil
				}
				if want := p.posixNlink(); ga.Attributes.Nlink != want {
					out = Viol(prop, "attr-nlink", "GetInodeAttributes", p.path(), "directory %q: the mount says st_nlink %d, a POSIX tree says %d (2 + its %d sub-directories) (history: %s)", p.path(), ga.Attributes.Nlink, want, want-2, tr())
					return nil, nil
				}
				// one big buffer, or a small one resumed at the offset of the last entry returned (as the kernel does
				// for directories that do not fit one buffer)
				if err := fs.OpenDir(bg, &fuseops.OpenDirOp{Inode: p.ino}); err != nil {
					out = Viol(prop, "errno", "OpenDir", p.path(), "opendir of a live directory returns %s (history: %s)", errnoName(err), tr())
					return nil, nil
				}
				defer func() { _ = fs.ReleaseDirHandle(bg, &fuseops.ReleaseDirHandleOp{}) }()
				bufSize := t.Pick(64*1024, 64*1024, 40, 72, 110)
				var got, want []string
				off := fuseops.DirOffset(0)
				for iter := 0; iter < 64; iter++ {
					op := &fuseops.ReadDirOp{Inode: p.ino, Offset: off, Dst: make([]byte, bufSize)}
					if err := fs.ReadDir(bg, op); err != nil {
						out = Viol(prop, "errno", "ReadDir", p.path(), "readdir (offset %d) of a live directory returns %s (history: %s)", off, errnoName(err), tr())
						return nil, nil
					}
					if op.BytesRead == 0 {
						break
					}
					ents, _ := parseDirents(op.Dst[:op.BytesRead])
					for _, e := range ents {
						got = append(got, e.Name)
						off = e.Offset
					}
					if bufSize >= 64*1024 {
						break
					}
				}
				if bufSize < 64*1024 {
					w.Probe("readdir-resumed")
				}
				for n := range p.children {
					want = append(want, n)
				}
				sort.Strings(got)
				sort.Strings(want)
				if strings.Join(got, ",") != strings.Join(want, ",") {
					out = Viol(prop, "readdir-wrong", "ReadDir", p.path(), "directory %q lists %v (buffer %d), the tree holds %v (history: %s)", p.path(), got, bufSize, want, tr())
					return nil, nil
				}
			}
		}
		return nil, nil
	})
	if v != nil {
		return v
	}
	_ = tk
	if out != nil {
		return out
	}
	// commit what the mount shows, then download it
	visible := Tree{}
	var walk func(n *mNode)
	walk = func(n *mNode) {
		for _, c := range n.children {
			if c.dir {
				walk(c)
			} else {
				visible[c.path()] = c.data
			}
		}
	}
	walk(root)
	ct, v := doOp(prop, w, mc, "commit", func() (interface{}, error) { return nil, mfs.Commit() })
	if v != nil {
		return v
	}
	if ct.Err != nil {
		return Viol(prop, "commit-failed", "Commit", "", "committing a mount showing %d files failed: %v (history: %s)", len(visible), ct.Err, tr())
	}
	w.Probe("nontrivial")
	rd := w.Client("down")
	dst := memDisk()
	_, fn := d.downloadFn(d.Stores(rd), "r1", bundle.BundleID, dst, downloadOpts{concDown: 3})
	pt, v := doOp(prop, w, rd, "publish", fn)
	if v != nil {
		return v
	}
	if pt.Err != nil {
		return Viol(prop, "commit-unreadable", "Publish", bundle.BundleID, "the bundle committed from the mount cannot be downloaded: %v", pt.Err)
	}
	got, _ := readTree(dst)
	data, _ := splitMeta(got)
	if df := diffTrees(visible, data); df != "" {
		return Viol(prop, "commit-differs", "Commit", bundle.BundleID, "the committed bundle differs from the tree the mount showed: %s (history: %s)", df, tr())
	}
	return nil
}

var _ = fuseutil.DT_File

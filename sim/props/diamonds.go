package props

import (
	"fmt"
	"sort"
	"strings"
	"time"

	context2 "github.com/oneconcern/datamon/pkg/context"
	"github.com/oneconcern/datamon/pkg/core"
	"github.com/oneconcern/datamon/pkg/model"
	"github.com/spf13/afero"
	"gopkg.in/yaml.v2"

	"verifsim/simkit"
)

// diamond operations exactly as the CLI commands perform them

func createDiamondFn(stores context2.Stores, repo string) func() (interface{}, error) {
	return func() (interface{}, error) {
		d, err := core.CreateDiamond(repo, stores, core.DiamondLogger(nopLog))
		return d.DiamondID, err
	}
}

// splitAddFn is "diamond split add": NewSplit, CreateSplit, Upload. splitID may be "" (fresh id).
func splitAddFn(stores context2.Stores, repo, diamondID, splitID string, src afero.Fs, conc int, leaf uint32, out *string) func() (interface{}, error) {
	return func() (interface{}, error) {
		s := core.NewSplit(repo, diamondID, stores,
			core.SplitDescriptor(model.NewSplitDescriptor(model.SplitID(splitID), model.SplitContributor(contributor))),
			core.SplitConsumableStore(localStore(src)),
			core.SplitConcurrentFileUploads(conc),
			core.SplitLogger(nopLog),
		)
		if leaf != 0 {
			s.Bundle.BundleDescriptor.LeafSize = leaf
		}
		if out != nil {
			*out = s.SplitDescriptor.SplitID
		}
		_, err := core.CreateSplit(repo, diamondID, stores, core.SplitDescriptor(&s.SplitDescriptor), core.SplitLogger(nopLog))
		if err != nil {
			return s.SplitDescriptor.SplitID, fmt.Errorf("split create: %w", err)
		}
		if err := s.Upload(); err != nil {
			return s.SplitDescriptor.SplitID, fmt.Errorf("split upload: %w", err)
		}
		return s.SplitDescriptor.SplitID, nil
	}
}

type commitRes struct {
	BundleID string
	Desc     model.DiamondDescriptor
}

// commitFn is "diamond commit".
// commitOpts are the listing options (page size, list concurrency) a commit reads the diamond's splits with; scenarios draw
// them from the tape (drawCommitOpts) so that a split's done/running descriptor keys fall on either side of a page boundary
var commitOpts []core.Option

func drawCommitOpts(t *simkit.Tape) func() {
	commitOpts = nil
	if t.Bool(2, 3) {
		commitOpts = []core.Option{core.BatchSize(t.Pick(1, 2, 3, 4, 5, 7, 8, 11, 1024)), core.ConcurrentList(t.Pick(1, 2, 8))}
	}
	return func() { commitOpts = nil }
}

func commitFn(stores context2.Stores, repo, diamondID string, mode model.ConflictMode, leaf uint32, out **core.Diamond) func() (interface{}, error) {
	return func() (interface{}, error) {
		dd, err := core.GetDiamond(repo, diamondID, stores, core.DiamondLogger(nopLog))
		if err != nil {
			return commitRes{}, fmt.Errorf("error retrieving diamond: %w", err)
		}
		d := core.NewDiamond(repo, stores,
			core.DiamondDescriptor(model.NewDiamondDescriptor(model.DiamondClone(dd), model.DiamondMode(mode))),
			core.DiamondMessage("commit"),
			core.DiamondLogger(nopLog),
		)
		if leaf != 0 {
			d.Bundle.BundleDescriptor.LeafSize = leaf
		}
		if out != nil {
			*out = d
		}
		err = d.Commit(commitOpts...)
		return commitRes{BundleID: d.BundleID, Desc: d.DiamondDescriptor}, err
	}
}

func cancelFn(stores context2.Stores, repo, diamondID string) func() (interface{}, error) {
	return func() (interface{}, error) {
		dd, err := core.GetDiamond(repo, diamondID, stores, core.DiamondLogger(nopLog))
		if err != nil {
			return nil, err
		}
		d := core.NewDiamond(repo, stores, core.DiamondDescriptor(model.NewDiamondDescriptor(model.DiamondClone(dd))), core.DiamondLogger(nopLog))
		return nil, d.Cancel()
	}
}

// --- reading what splits stored (the oracle's only input)

type splitVersion struct {
	Split string
	Hash  string
	Size  uint64
	Stamp time.Time
}

type storedSplit struct {
	ID         string
	Generation string
	Entries    []model.BundleEntry
	DoneLanded int // event seq at which split-done.yaml landed (-1 unknown)
}

// readDoneSplits reads, straight from the backend, every split of a diamond that has a split-done.yaml,
// with the entries of the generation that descriptor names.
func readDoneSplits(vmeta *simkit.Backend, repo, diamondID string) ([]*storedSplit, error) {
	var out []*storedSplit
	prefix := model.GetArchivePathPrefixToSplits(repo, diamondID)
	for _, k := range vmeta.KeysWithPrefix(prefix) {
		if !strings.HasSuffix(k, "/split-done.yaml") {
			continue
		}
		var sd model.SplitDescriptor
		if err := yaml.Unmarshal(vmeta.Peek(k).Data, &sd); err != nil {
			return nil, err
		}
		ss := &storedSplit{ID: sd.SplitID, Generation: sd.GenerationID, DoneLanded: -1}
		for i := uint64(0); i < sd.SplitEntriesFileCount; i++ {
			o := vmeta.Peek(model.GetArchivePathToSplitFileList(repo, diamondID, sd.SplitID, sd.GenerationID, i))
			if o == nil {
				return nil, fmt.Errorf("split %s: index file %d of generation %s is missing", sd.SplitID, i, sd.GenerationID)
			}
			var es model.BundleEntries
			if err := yaml.Unmarshal(o.Data, &es); err != nil {
				return nil, err
			}
			ss.Entries = append(ss.Entries, es.BundleEntries...)
		}
		out = append(out, ss)
	}
	sort.Slice(out, func(i, j int) bool { return out[i].ID < out[j].ID })
	return out, nil
}

// versionsOf groups the stored entries by path.
func versionsOf(splits []*storedSplit) map[string][]splitVersion {
	m := map[string][]splitVersion{}
	for _, s := range splits {
		for _, e := range s.Entries {
			m[e.NameWithPath] = append(m[e.NameWithPath], splitVersion{Split: s.ID, Hash: e.Hash, Size: e.Size, Stamp: e.Timestamp})
		}
	}
	return m
}

// checkMerge is the oracle of C11/C12 for one committed bundle: entries is name -> hash of the bundle.
// It returns (class, object, message) or "" when the bundle is a correct merge of the given splits.
func checkMerge(entries map[string]string, splits []*storedSplit, mode model.ConflictMode) (string, string, string) {
	vs := versionsOf(splits)
	prefix := ""
	switch mode {
	case model.EnableConflicts:
		prefix = ".conflicts/"
	case model.EnableCheckpoints:
		prefix = ".checkpoints/"
	}
	isSide := func(p string) bool {
		return strings.HasPrefix(p, ".conflicts/") || strings.HasPrefix(p, ".checkpoints/")
	}
	winners := map[string]string{} // path -> winning hash ("" = exact tie between different contents: either)
	for p, l := range vs {
		best := l[0]
		tie := false
		for _, v := range l[1:] {
			switch {
			case v.Stamp.After(best.Stamp):
				best, tie = v, false
			case v.Stamp.Equal(best.Stamp) && v.Hash != best.Hash:
				tie = true
			}
		}
		if tie {
			winners[p] = ""
		} else {
			winners[p] = best.Hash
		}
	}
	// main tree
	for _, p := range sortedKeys(winners) {
		h, ok := entries[p]
		if !ok {
			return "merge-path-missing", p, fmt.Sprintf("path %q was uploaded by a completed split but is not in the committed bundle", p)
		}
		if winners[p] != "" && h != winners[p] {
			return "merge-not-latest", p, fmt.Sprintf("path %q holds %s…, the version with the latest upload time is %s… (versions: %s)", p, h[:8], winners[p][:8], renderVersions(vs[p]))
		}
	}
	for _, p := range sortedKeys(entries) {
		if isSide(p) {
			continue
		}
		if _, ok := winners[p]; !ok {
			return "merge-foreign-path", p, fmt.Sprintf("the committed bundle holds %q which no completed split uploaded", p)
		}
	}
	// side entries
	side := map[string]map[string]bool{} // path -> set of hashes kept aside
	for _, p := range sortedKeys(entries) {
		if !isSide(p) {
			continue
		}
		if prefix == "" || !strings.HasPrefix(p, prefix) {
			return "merge-unexpected-side-path", p, fmt.Sprintf("mode %q must not produce %q", mode, p)
		}
		rest := strings.TrimPrefix(p, prefix)
		i := strings.Index(rest, "/")
		if i < 0 {
			return "merge-bad-side-path", p, "side path without a split component"
		}
		split, orig := rest[:i], rest[i+1:]
		found := false
		for _, v := range vs[orig] {
			if v.Split == split && v.Hash == entries[p] {
				found = true
			}
		}
		if !found {
			return "merge-side-wrong-split", p, fmt.Sprintf("%q holds %s… but split %s did not upload that content for %q (versions: %s)", p, entries[p][:8], tail4(split), orig, renderVersions(vs[orig]))
		}
		if winners[orig] != "" && entries[p] == winners[orig] {
			return "merge-identical-kept-as-conflict", p, fmt.Sprintf("%q holds the same content as the winning version of %q: identical contents are not conflicts", p, orig)
		}
		if side[orig] == nil {
			side[orig] = map[string]bool{}
		}
		side[orig][entries[p]] = true
	}
	if prefix != "" {
		for _, p := range sortedKeys(vs) {
			if winners[p] == "" {
				continue
			}
			for _, v := range vs[p] {
				if v.Hash != winners[p] && !side[p][v.Hash] {
					return "merge-loser-lost", p, fmt.Sprintf("version %s… of %q (split %s) lost the merge and is not kept under %s<split>/%s (versions: %s)", v.Hash[:8], p, tail4(v.Split), prefix, p, renderVersions(vs[p]))
				}
			}
		}
	}
	return "", "", ""
}

// hasRealConflict tells whether two different splits uploaded different contents for some path.
func hasRealConflict(splits []*storedSplit) bool {
	for _, l := range versionsOf(splits) {
		for _, a := range l {
			for _, b := range l {
				if a.Split != b.Split && a.Hash != b.Hash {
					return true
				}
			}
		}
	}
	return false
}

func renderVersions(l []splitVersion) string {
	var out []string
	for _, v := range l {
		out = append(out, fmt.Sprintf("%s:%s@%s", tail4(v.Split), v.Hash[:6], v.Stamp.Format("15:04:05.000")))
	}
	return strings.Join(out, " ")
}

// bundleEntryMap downloads the metadata of a bundle and returns name -> hash.
func bundleEntryMap(prop string, d *DM, c *simkit.Client, repo, id string) (map[string]string, map[string]uint64, *simkit.Violation) {
	mb, fn := d.downloadFn(d.Stores(c), repo, id, nil, downloadOpts{metaOnly: true})
	tk, v := doOp(prop, d.w, c, "download-metadata "+id, fn)
	if v != nil {
		return nil, nil, v
	}
	if tk.Err != nil {
		return nil, nil, Viol(prop, "bundle-unreadable", "DownloadMetadata", id, "metadata of the committed bundle %s cannot be read: %v", id, tk.Err)
	}
	m := map[string]string{}
	sz := map[string]uint64{}
	for _, e := range mb.GetBundleEntries() {
		if _, dup := m[e.NameWithPath]; dup {
			return nil, nil, Viol(prop, "entry-duplicated", "DownloadMetadata", e.NameWithPath, "path %q is listed twice in bundle %s", e.NameWithPath, id)
		}
		m[e.NameWithPath] = e.Hash
		sz[e.NameWithPath] = e.Size
	}
	return m, sz, nil
}

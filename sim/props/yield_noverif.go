//go:build !verif

package props

// YieldsCompiledIn tells whether datamon was built with its in-memory yield points (build tag verif).
const YieldsCompiledIn = false

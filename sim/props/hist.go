package props

import (
	"fmt"
	"sort"

	context2 "github.com/oneconcern/datamon/pkg/context"
	"github.com/oneconcern/datamon/pkg/core"
	"github.com/oneconcern/datamon/pkg/model"
	"github.com/spf13/afero"

	"verifsim/simkit"
)

// mBundle is a committed bundle in the reference model.
type mBundle struct {
	ID   string
	Tree Tree
	Leaf uint32
}

// mRepo is the reference model of one repository.
type mRepo struct {
	Name    string
	Bundles []*mBundle        // in commit order
	Labels  map[string]string // label -> bundle id
}

func (r *mRepo) ids() []string {
	var out []string
	for _, b := range r.Bundles {
		out = append(out, b.ID)
	}
	sort.Strings(out)
	return out
}

func (r *mRepo) find(id string) *mBundle {
	for _, b := range r.Bundles {
		if b.ID == id {
			return b
		}
	}
	return nil
}

func (r *mRepo) remove(id string) {
	var keep []*mBundle
	for _, b := range r.Bundles {
		if b.ID != id {
			keep = append(keep, b)
		}
	}
	r.Bundles = keep
}

var contributor = model.Contributor{Name: "sim", Email: "sim@example.com"}

// setLabelFn returns the operation "label set".
func setLabelFn(stores context2.Stores, repo, name, bundleID string) func() (interface{}, error) {
	return func() (interface{}, error) {
		b := core.NewBundle(core.Repo(repo), core.ContextStores(stores), core.BundleID(bundleID), core.Logger(nopLog))
		l := core.NewLabel(core.LabelDescriptor(model.NewLabelDescriptor(model.LabelContributor(contributor), model.LabelName(name))))
		return nil, l.UploadDescriptor(bg, b)
	}
}

// setLabelWithFn assigns through a Label value built earlier (an assignment happens when the descriptor is uploaded,
// whenever it was built): the same value may be used for several assignments.
func setLabelWithFn(l *core.Label, stores context2.Stores, repo, bundleID string) func() (interface{}, error) {
	return func() (interface{}, error) {
		b := core.NewBundle(core.Repo(repo), core.ContextStores(stores), core.BundleID(bundleID), core.Logger(nopLog))
		return nil, l.UploadDescriptor(bg, b)
	}
}

// getLabelFn returns the operation "label get": the bundle id, or core's not-found error.
func getLabelFn(stores context2.Stores, repo, name string) func() (interface{}, error) {
	return func() (interface{}, error) {
		b := core.NewBundle(core.Repo(repo), core.ContextStores(stores), core.Logger(nopLog))
		l := core.NewLabel(core.LabelDescriptor(model.NewLabelDescriptor(model.LabelName(name))))
		if err := l.DownloadDescriptor(bg, b, true); err != nil {
			return "", err
		}
		return l.Descriptor.BundleID, nil
	}
}

// addBundle uploads a tree as a new committed bundle of repo r (fault-free) and records it in the model.
func addBundle(prop string, d *DM, c *simkit.Client, r *mRepo, tree Tree, leaf uint32, concUp int) (*mBundle, *simkit.Violation) {
	src := memDisk()
	_ = src.MkdirAll(".", 0o755)
	if err := writeTree(src, tree); err != nil {
		return nil, Viol(prop, "harness", "writeTree", "", "%v", err)
	}
	_, fn := d.upload(c, d.Stores(c), r.Name, src, uploadOpts{leaf: leaf, concUp: concUp, message: fmt.Sprintf("bundle %d of %s", len(r.Bundles), r.Name)})
	tk, v := doOp(prop, d.w, c, "upload "+r.Name, fn)
	if v != nil {
		return nil, v
	}
	if tk.Err != nil {
		return nil, Viol(prop, "harness", "upload", r.Name, "fault-free upload failed while building the history: %v", tk.Err)
	}
	mb := &mBundle{ID: tk.Result.(*core.Bundle).BundleID, Tree: tree, Leaf: leaf}
	r.Bundles = append(r.Bundles, mb)
	return mb, nil
}

// addLabel sets a label (fault-free) and records it.
func addLabel(prop string, d *DM, c *simkit.Client, r *mRepo, name, id string) *simkit.Violation {
	tk, v := doOp(prop, d.w, c, "label "+name, setLabelFn(d.Stores(c), r.Name, name, id))
	if v != nil {
		return v
	}
	if tk.Err != nil {
		return Viol(prop, "harness", "label-set", name, "fault-free label set failed while building the history: %v", tk.Err)
	}
	if r.Labels == nil {
		r.Labels = map[string]string{}
	}
	r.Labels[name] = id
	return nil
}

// observe checks, as a fresh client, that exactly the model's bundles and labels of repo r are visible,
// that the latest bundle is the greatest committed id and that every bundle downloads to its content.
// extra lists ids that MAY additionally be visible (an operation that crashed after its last write landed)
// together with the content they must then have.
func observe(prop string, d *DM, obs *simkit.Client, r *mRepo, extra map[string]*mBundle, t *simkit.Tape, download bool) *simkit.Violation {
	w := d.w
	st := d.Stores(obs)
	lt, v := doOp(prop, w, obs, "list-bundles "+r.Name, func() (interface{}, error) {
		if t.Bool(1, 3) {
			var bs model.BundleDescriptors
			err := core.ListBundlesApply(r.Name, st, func(x model.BundleDescriptor) error { bs = append(bs, x); return nil }, core.BatchSize(t.Pick(1, 2, 3, 1024)), core.ConcurrentList(t.Pick(1, 2, 8)))
			return bs, err
		}
		return core.ListBundles(r.Name, st, core.BatchSize(t.Pick(1, 2, 3, 1024)), core.ConcurrentList(t.Pick(1, 2, 8)))
	})
	if v != nil {
		return v
	}
	if lt.Err != nil {
		return Viol(prop, "list-error", "ListBundles", r.Name, "ListBundles failed after the interrupted operation: %v", lt.Err)
	}
	listed := lt.Result.(model.BundleDescriptors)
	var got []string
	seen := map[string]bool{}
	for _, b := range listed {
		got = append(got, b.ID)
		if seen[b.ID] {
			return Viol(prop, "listed-twice", "ListBundles", b.ID, "bundle listed twice")
		}
		seen[b.ID] = true
	}
	visible := map[string]*mBundle{}
	for _, b := range r.Bundles {
		if !seen[b.ID] {
			return Viol(prop, "committed-bundle-lost", "ListBundles", b.ID, "a bundle committed before the interrupted operation is no longer listed (listed: %v)", got)
		}
		visible[b.ID] = b
	}
	for _, id := range got {
		if visible[id] != nil {
			continue
		}
		mb, ok := extra[id]
		if !ok {
			return Viol(prop, "partial-bundle-visible", "ListBundles", id, "ListBundles shows %s which is not a committed bundle of the model (committed: %v)", id, r.ids())
		}
		// its descriptor landed: it must be complete
		visible[id] = mb
		w.Probe("crashed-op-committed")
	}
	// latest
	gt, v := doOp(prop, w, obs, "latest "+r.Name, func() (interface{}, error) { return core.GetLatestBundle(r.Name, st) })
	if v != nil {
		return v
	}
	var vis []string
	for id := range visible {
		vis = append(vis, id)
	}
	sort.Strings(vis)
	if len(vis) == 0 {
		if gt.Err == nil {
			return Viol(prop, "latest-uncommitted", "GetLatestBundle", fmt.Sprint(gt.Result), "GetLatestBundle returns %v although the repository has no committed bundle", gt.Result)
		}
	} else {
		if gt.Err != nil {
			return Viol(prop, "latest-error", "GetLatestBundle", r.Name, "GetLatestBundle failed: %v", gt.Err)
		}
		if id := gt.Result.(string); id != vis[len(vis)-1] {
			cls := "latest-wrong"
			if visible[id] == nil {
				cls = "latest-uncommitted"
			}
			return Viol(prop, cls, "GetLatestBundle", id, "GetLatestBundle returns %s, the greatest committed bundle is %s (visible: %v)", id, vis[len(vis)-1], vis)
		}
	}
	// labels
	ll, v := doOp(prop, w, obs, "list-labels "+r.Name, func() (interface{}, error) { return core.ListLabels(r.Name, st) })
	if v != nil {
		return v
	}
	if ll.Err != nil {
		return Viol(prop, "list-error", "ListLabels", r.Name, "ListLabels failed: %v", ll.Err)
	}
	gotLabels := map[string]string{}
	for _, l := range ll.Result.([]model.LabelDescriptor) {
		gotLabels[l.Name] = l.BundleID
	}
	for _, n := range sortedKeys(r.Labels) {
		if gotLabels[n] != r.Labels[n] {
			return Viol(prop, "label-changed", "ListLabels", n, "label %q resolves to %q, model says %q", n, gotLabels[n], r.Labels[n])
		}
	}
	for _, n := range sortedKeys(gotLabels) {
		if _, ok := r.Labels[n]; !ok {
			if _, ok := extra["label:"+n]; ok {
				continue
			}
			return Viol(prop, "label-foreign", "ListLabels", n, "unexpected label %q -> %s", n, gotLabels[n])
		}
	}
	if !download {
		return nil
	}
	for _, id := range vis {
		mb := visible[id]
		var dst afero.Fs = memDisk()
		_, fn := d.downloadFn(st, r.Name, id, dst, downloadOpts{concDown: t.Pick(1, 3, 10), concList: t.Pick(1, 10)})
		pt, v := doOp(prop, w, obs, "publish "+id, fn)
		if v != nil {
			return v
		}
		if pt.Err != nil {
			return Viol(prop, "visible-bundle-unreadable", "Publish", id, "bundle %s is listed but cannot be downloaded: %v", id, pt.Err)
		}
		gotT, _ := readTree(dst)
		data, _ := splitMeta(gotT)
		if df := diffTrees(mb.Tree, data); df != "" {
			return Viol(prop, "visible-bundle-differs", "Publish", id, "bundle %s downloads to something else than what was uploaded: %s", id, df)
		}
	}
	return nil
}

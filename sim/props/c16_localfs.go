package props

import (
	"bytes"
	"fmt"
	"io"
	"sort"
	"strings"

	"github.com/oneconcern/datamon/pkg/storage"
	"github.com/oneconcern/datamon/pkg/storage/localfs"
	"github.com/spf13/afero"

	"verifsim/simkit"
)

func init() {
	Register(&Scenario{Prop: "C16", Name: "kv-history", Strict: true, Quick: 10, Thorough: 10, Run: runC16History})
	Register(&Scenario{Prop: "C16", Name: "exclusive-race", Strict: true, Quick: 6, Thorough: 8, Run: runC16Race})
	// the same race with one or two disk errors (EIO, short write + ENOSPC, failing close) on the writers' file writes:
	// a writer may fail, and may retry after its back-off, but never do two writers win, and a winner's bytes are the key's
	Register(&Scenario{Prop: "C16", Name: "exclusive-race-disk-errors", Strict: true, Quick: 3, Thorough: 4, Run: func(rc *RunCtx) *simkit.Violation {
		c16RaceFaulty = true
		defer func() { c16RaceFaulty = false }()
		return runC16Race(rc)
	}})
}

// kvListing is the reference listing: exact prefix, delimiter roll-up, lexicographic, each item once.
func kvListing(m map[string][]byte, prefix, delim string) []string {
	set := map[string]bool{}
	for k := range m {
		if !strings.HasPrefix(k, prefix) {
			continue
		}
		item := k
		if delim != "" {
			if i := strings.Index(k[len(prefix):], delim); i >= 0 {
				item = k[:len(prefix)+i+len(delim)]
			}
		}
		set[item] = true
	}
	out := make([]string, 0, len(set))
	for k := range set {
		out = append(out, k)
	}
	sort.Strings(out)
	return out
}

var c16Components = []string{"a", "a-b", "ab", "a.b", "b", "x", "a b", "é", "0"}

func drawC16Key(t *simkit.Tape) string {
	n := t.Range(1, 3)
	parts := make([]string, n)
	for i := range parts {
		parts[i] = c16Components[t.Choose(len(c16Components))]
	}
	// leaf names never collide with directory names: files end in a suffix no directory has
	return strings.Join(parts, "/") + "." + []string{"f", "g", "yaml"}[t.Choose(3)]
}

func runC16History(rc *RunCtx) *simkit.Violation {
	const prop = "C16"
	w := rc.W
	t := w.W
	var inner afero.Fs
	osDisk := t.Bool(1, 3)
	if osDisk {
		inner = afero.NewBasePathFs(afero.NewOsFs(), rc.Dir)
	} else {
		inner = afero.NewBasePathFs(afero.NewMemMapFs(), "/store")
		_ = inner.MkdirAll(".", 0o755)
	}
	st := localfs.New(inner, localfs.WithLogger(nopLog), localfs.WithRetry(t.Bool(1, 2)))
	model := map[string][]byte{}
	steps := t.Range(3, 25)
	var trace []string
	note := func(f string, a ...interface{}) {
		trace = append(trace, fmt.Sprintf(f, a...))
		w.Note(f, a...)
	}
	tr := func() string {
		if len(trace) > 12 {
			return strings.Join(trace[len(trace)-12:], "; ")
		}
		return strings.Join(trace, "; ")
	}
	pickKey := func() string {
		if len(model) > 0 && t.Bool(2, 3) {
			ks := sortedKeys(model)
			return ks[t.Choose(len(ks))]
		}
		return drawC16Key(t)
	}
	w.Note("localfs over %s", map[bool]string{true: "OsFs(tmp)", false: "MemMapFs"}[osDisk])
	// the whole history runs as one task (the disk is pass-through here): a panic inside localfs is caught and reported
	var out *simkit.Violation
	populate := 0
	if t.Bool(1, 2) {
		populate = t.Range(4, 14) // a store that already holds some keys: listings span several pages
	}
	tk, v := doOp(prop, w, w.Client("c"), "history", func() (interface{}, error) {
		for i := 0; i < populate; i++ {
			k, data := drawC16Key(t), t.Bytes(t.Range(0, 9))
			if err := st.Put(bg, k, bytes.NewReader(data), storage.OverWrite); err != nil {
				out = Viol(prop, "put-failed", "Put", k, "Put(%q) failed on a healthy disk: %v", k, err)
				return nil, nil
			}
			model[k] = data
		}
		if populate > 0 {
			note("store populated with %q", sortedKeys(model))
		}
		out = c16History(prop, w, t, st, model, steps, note, tr, pickKey)
		return nil, nil
	})
	if v != nil {
		return v
	}
	_ = tk
	if out == nil {
		w.Probe("nontrivial")
	}
	return out
}

func c16History(prop string, w *simkit.World, t *simkit.Tape, st storage.Store, model map[string][]byte, steps int, note func(string, ...interface{}), tr func() string, pickKey func() string) *simkit.Violation {
	for i := 0; i < steps; i++ {
		switch t.Pick(0, 0, 1, 2, 3, 4, 5, 6, 6, 6, 7, 8, 9) {
		case 7: // Touch: refreshes the object's time, never its content
			k := pickKey()
			want, exists := model[k]
			err := st.Touch(bg, k) // (times are not compared: the simulated clock and a real directory's kernel clock differ)
			note("touch %q exists=%v err=%v", k, exists, err != nil)
			if exists && err != nil {
				return Viol(prop, "touch-failed", "Touch", k, "Touch(%q) of an existing key failed: %v (history: %s)", k, err, tr())
			}
			if !exists && err == nil {
				if has, _ := st.Has(bg, k); has {
					return Viol(prop, "touch-created", "Touch", k, "Touch(%q) of a missing key created it (history: %s)", k, tr())
				}
			}
			if exists {
				at, err := st.GetAttr(bg, k)
				if err != nil || at.Size != int64(len(want)) {
					return Viol(prop, "attr-wrong", "Touch", k, "after Touch(%q): size %d (written %d), err=%v", k, at.Size, len(want), err)
				}
			}
		case 8: // Get streamed through the reader's WriteTo (what cafs and the bundle download use)
			k := pickKey()
			want, exists := model[k]
			if !exists {
				continue
			}
			r, err := st.Get(bg, k)
			if err != nil {
				return Viol(prop, "get-wrong", "Get", k, "Get(%q) failed: %v (history: %s)", k, err, tr())
			}
			wt, ok := r.(io.WriterTo)
			if !ok {
				_ = r.Close()
				continue
			}
			var buf bytes.Buffer
			n, err := wt.WriteTo(&buf)
			_ = r.Close()
			if err != nil || n != int64(len(want)) || !bytes.Equal(buf.Bytes(), want) {
				return Viol(prop, "get-wrong", "Get-WriteTo", k, "Get(%q).WriteTo delivered %d bytes (reported %d) err=%v, last written %d bytes (history: %s)", k, buf.Len(), n, err, len(want), tr())
			}
		case 9: // Clear: every key is gone, the store stays usable
			if !t.Bool(1, 3) {
				continue
			}
			err := st.Clear(bg)
			note("clear err=%v", err != nil)
			if err != nil {
				return Viol(prop, "clear-failed", "Clear", "", "Clear failed: %v (history: %s)", err, tr())
			}
			for k := range model {
				delete(model, k)
			}
			ks, err := st.Keys(bg)
			if err != nil || len(ks) != 0 {
				return Viol(prop, "keys-wrong", "Keys-after-Clear", "", "after Clear, Keys() = %q err=%v (history: %s)", ks, err, tr())
			}
		case 0: // Put overwrite
			k, data := pickKey(), t.Bytes(t.Pick(0, 1, 10, 100))
			err := st.Put(bg, k, bytes.NewReader(data), storage.OverWrite)
			note("put %q (%d)", k, len(data))
			if err != nil {
				return Viol(prop, "put-failed", "Put", k, "Put(%q) failed: %v (history: %s)", k, err, tr())
			}
			model[k] = data
		case 1: // Put exclusive
			k, data := pickKey(), t.Bytes(t.Pick(0, 1, 10))
			_, exists := model[k]
			err := st.Put(bg, k, bytes.NewReader(data), storage.NoOverWrite)
			note("put-excl %q exists=%v err=%v", k, exists, err != nil)
			if exists && err == nil {
				return Viol(prop, "exclusive-put-overwrote", "Put-NoOverWrite", k, "create-if-absent Put of existing key %q succeeded (history: %s)", k, tr())
			}
			if !exists && err != nil {
				return Viol(prop, "put-failed", "Put-NoOverWrite", k, "create-if-absent Put of new key %q failed: %v (history: %s)", k, err, tr())
			}
			if !exists {
				model[k] = data
			}
		case 2: // Get / GetAt
			k := pickKey()
			want, exists := model[k]
			r, err := st.Get(bg, k)
			var got []byte
			if err == nil {
				got, err = io.ReadAll(r)
				_ = r.Close()
			}
			if exists && (err != nil || !bytes.Equal(got, want)) {
				return Viol(prop, "get-wrong", "Get", k, "Get(%q) returned %d bytes err=%v, last written %d bytes (history: %s)", k, len(got), err, len(want), tr())
			}
			if !exists && err == nil {
				return Viol(prop, "get-ghost", "Get", k, "Get(%q) of a key that does not exist returned %d bytes (history: %s)", k, len(got), tr())
			}
			if exists {
				ra, err := st.GetAt(bg, k)
				if err != nil {
					return Viol(prop, "get-wrong", "GetAt", k, "GetAt(%q) failed: %v", k, err)
				}
				buf := make([]byte, len(want)+3)
				n, _ := ra.ReadAt(buf, 0)
				if !bytes.Equal(buf[:n], want) {
					return Viol(prop, "get-wrong", "GetAt", k, "GetAt(%q).ReadAt returned %d bytes, last written %d", k, n, len(want))
				}
				if c, ok := ra.(io.Closer); ok {
					_ = c.Close()
				}
			}
		case 3: // Has / GetAttr
			k := pickKey()
			want, exists := model[k]
			has, err := st.Has(bg, k)
			if err != nil || has != exists {
				return Viol(prop, "has-wrong", "Has", k, "Has(%q)=%v err=%v, model says %v (history: %s)", k, has, err, exists, tr())
			}
			if exists {
				at, err := st.GetAttr(bg, k)
				if err != nil || at.Size != int64(len(want)) {
					return Viol(prop, "attr-wrong", "GetAttr", k, "GetAttr(%q) size=%d err=%v, last written %d bytes", k, at.Size, err, len(want))
				}
			}
			// a directory is not an object
			if i := strings.Index(k, "/"); i > 0 {
				if has, _ := st.Has(bg, k[:i]); has {
					return Viol(prop, "has-wrong", "Has-directory", k[:i], "Has(%q) is true for a path component", k[:i])
				}
			}
		case 4: // Delete
			k := pickKey()
			_, exists := model[k]
			err := st.Delete(bg, k)
			note("delete %q exists=%v", k, exists)
			if exists && err != nil {
				return Viol(prop, "delete-failed", "Delete", k, "Delete(%q) failed: %v", k, err)
			}
			delete(model, k)
			if has, _ := st.Has(bg, k); has {
				return Viol(prop, "delete-failed", "Delete", k, "key %q still exists after Delete", k)
			}
		case 5: // Keys
			ks, err := st.Keys(bg)
			if err != nil {
				return Viol(prop, "keys-wrong", "Keys", "", "Keys failed: %v (history: %s)", err, tr())
			}
			got := append([]string(nil), ks...)
			sort.Strings(got)
			if strings.Join(got, "\x00") != strings.Join(sortedKeys(model), "\x00") {
				return Viol(prop, "keys-wrong", "Keys", "", "Keys() = %q, model %q (history: %s)", got, sortedKeys(model), tr())
			}
		default: // KeysPrefix, any page size, following next; sometimes abandoning a pagination half-way first
			prefixes := []string{"", "a", "a/", "a-", "a-b/", "ab", "ab/", "a/b", "a/a/", "a.b/", "zz", "b/", "x/"}
			prefix := prefixes[t.Choose(len(prefixes))]
			if len(model) > 0 && t.Bool(1, 2) {
				ks := sortedKeys(model)
				k := ks[t.Choose(len(ks))]
				prefix = k[:t.Pick(0, 0, 1, 2, t.Range(0, len(k)))]
			}
			delim := []string{"", "/", "/"}[t.Choose(3)]
			page := t.Pick(1, 1, 2, 2, 3, 7, 100)
			want := kvListing(model, prefix, delim)
			if len(want) > page {
				w.Probe("listing-of-several-pages")
			}
			if t.Bool(1, 4) && len(want) > page {
				// abandon a pagination after its first page, change the store, then list again
				_, _, _ = st.KeysPrefix(bg, "", prefix, delim, page)
				k, data := prefix+"zz-new.f", []byte("new")
				if !strings.Contains(prefix, ".") && !strings.HasSuffix(prefix, "/a") {
					if err := st.Put(bg, k, bytes.NewReader(data), storage.OverWrite); err == nil {
						model[k] = data
						note("abandoned listing of %q, then put %q", prefix, k)
						want = kvListing(model, prefix, delim)
						w.Probe("abandoned-pagination")
					}
				}
			}
			if t.Bool(1, 4) {
				// two paginations of the same prefix through the same store value advance in turns (a flat one and a
				// delimited one, or two page sizes): each is the listing it would be alone
				type pagination struct {
					delim, token string
					page         int
					got, want    []string
					done         bool
				}
				ls := []*pagination{{delim: delim, page: page, want: want}, {delim: []string{"", "/"}[t.Choose(2)], page: t.Pick(1, 2, 3, 7)}}
				ls[1].want = kvListing(model, prefix, ls[1].delim)
				for step := 0; step < 400 && !(ls[0].done && ls[1].done); step++ {
					l := ls[t.Choose(2)]
					if l.done {
						continue
					}
					ks, next, err := st.KeysPrefix(bg, l.token, prefix, l.delim, l.page)
					if err != nil {
						return Viol(prop, "list-wrong", "KeysPrefix-in-turns", prefix, "KeysPrefix(%q,%q,%d) failed: %v (history: %s)", prefix, l.delim, l.page, err, tr())
					}
					l.got = append(l.got, ks...)
					l.token, l.done = next, next == ""
				}
				for _, l := range ls {
					if !l.done || strings.Join(l.got, "\x00") != strings.Join(l.want, "\x00") {
						return Viol(prop, "list-wrong", "KeysPrefix-in-turns", prefix, "two paginations of prefix %q advanced in turns: the one with delimiter %q and page size %d returned %q, want %q (keys: %q)", prefix, l.delim, l.page, l.got, l.want, sortedKeys(model))
					}
				}
				w.Probe("listings-in-turns")
				continue
			}
			var got []string
			token := ""
			for pg := 0; pg < 200; pg++ {
				ks, next, err := st.KeysPrefix(bg, token, prefix, delim, page)
				if err != nil {
					return Viol(prop, "list-wrong", "KeysPrefix", prefix, "KeysPrefix(%q,%q,%d) failed: %v (history: %s)", prefix, delim, page, err, tr())
				}
				if len(ks) > page {
					return Viol(prop, "list-wrong", "KeysPrefix-page", prefix, "a page of %d items for page size %d", len(ks), page)
				}
				got = append(got, ks...)
				if next == "" {
					break
				}
				token = next
			}
			if strings.Join(got, "\x00") != strings.Join(want, "\x00") {
				cls := "list-wrong"
				g2 := append([]string(nil), got...)
				sort.Strings(g2)
				discr := "KeysPrefix-content"
				if strings.Join(g2, "\x00") == strings.Join(want, "\x00") {
					discr = "KeysPrefix-order"
				}
				return Viol(prop, cls, discr, prefix, "KeysPrefix(prefix %q, delimiter %q, page %d) = %q, want %q (keys: %q)", prefix, delim, page, got, want, sortedKeys(model))
			}
			w.Probe("listing-checked")
		}
	}
	return nil
}

// runC16Race: several writers create the same key with create-if-absent, every file-system call of each
// writer being a scheduling point: exactly one wins and its bytes are what is read afterwards.
var c16RaceFaulty bool

func runC16Race(rc *RunCtx) *simkit.Violation {
	const prop = "C16"
	w := rc.W
	t := w.W
	var inner afero.Fs
	osDisk := t.Bool(1, 2)
	if osDisk {
		inner = afero.NewBasePathFs(afero.NewOsFs(), rc.Dir)
	} else {
		inner = afero.NewBasePathFs(afero.NewMemMapFs(), "/store")
		_ = inner.MkdirAll(".", 0o755)
	}
	k := t.Range(2, 4)
	key := []string{"dir/sub/key.f", "key.f", "a/a-b.f"}[t.Choose(3)]
	retry := t.Bool(1, 2)
	var tasks []*simkit.Task
	payloads := make([][]byte, k)
	for i := 0; i < k; i++ {
		i := i
		c := w.Client(fmt.Sprintf("writer%d", i))
		disk := w.NewDisk(fmt.Sprintf("disk%d", i), c, inner)
		st := localfs.New(disk, localfs.WithLogger(nopLog), localfs.WithRetry(retry))
		payloads[i] = append([]byte(fmt.Sprintf("writer %d: ", i)), t.Bytes(t.Pick(0, 5, 40000))...)
		plain := t.Bool(1, 2)
		tasks = append(tasks, w.Go(c, "put-excl", func() (interface{}, error) {
			var src io.Reader = bytes.NewReader(payloads[i]) // WriterTo path
			if plain {
				src = &srcReader{data: payloads[i], chunks: []int{7, 1000}} // PipeIO path
			}
			return nil, st.Put(bg, key, src, storage.NoOverWrite)
		}))
	}
	if c16RaceFaulty {
		w.Faults = &simkit.FaultCfg{Err: 200, Torn: 150, Budget: t.Range(1, 2), Eligible: func(c *simkit.Call) bool {
			return c.Disk != nil && (c.Op == simkit.OpFsWrite || c.Op == simkit.OpFsClose || c.Op == simkit.OpFsSync)
		}}
	}
	w.Note("%d concurrent create-if-absent Put(%q) over %s, retry=%v, disk errors=%v", k, key, map[bool]string{true: "OsFs(tmp)", false: "MemMapFs"}[osDisk], retry, c16RaceFaulty)
	if v := w.Run(); v != nil {
		v.Property = prop
		return v
	}
	var winners []int
	for i, tk := range tasks {
		if pv := taskProblem(prop, tk, "Put"); pv != nil {
			return pv
		}
		if tk.Err == nil {
			winners = append(winners, i)
		}
	}
	w.Faults = nil
	if c16RaceFaulty && fired(w) && len(winners) == 0 {
		w.Probe("nobody-won-under-disk-errors")
		return nil
	}
	if len(winners) != 1 {
		return Viol(prop, "exclusive-put-not-exclusive", "Put-NoOverWrite", key, "%d of %d concurrent create-if-absent writers of %q succeeded (%v)", len(winners), k, key, winners)
	}
	got, err := afero.ReadFile(inner, key)
	if err != nil || !bytes.Equal(got, payloads[winners[0]]) {
		return Viol(prop, "exclusive-put-wrong-bytes", "Put-NoOverWrite", key, "writer %d won but the key holds %d bytes (err %v) that are not its %d bytes", winners[0], len(got), err, len(payloads[winners[0]]))
	}
	w.Probe(fmt.Sprintf("winner-%d", winners[0]))
	if w.Stats.Concurrent > 0 {
		w.Probe("nontrivial")
	}
	return nil
}

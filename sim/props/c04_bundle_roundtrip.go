package props

import (
	"fmt"
	"github.com/spf13/afero"
	"sort"
	"strings"

	"github.com/oneconcern/datamon/pkg/core"
	"github.com/oneconcern/datamon/pkg/model"

	"verifsim/refmodel"
	"verifsim/simkit"
)

func init() {
	Register(&Scenario{Prop: "C04", Name: "upload-download", Strict: true, Quick: 20, Thorough: 20, Run: func(rc *RunCtx) *simkit.Violation { return runC04(rc, 0) }})
	Register(&Scenario{Prop: "C04", Name: "repeated-keys", Strict: true, Quick: 1, Thorough: 1, Run: func(rc *RunCtx) *simkit.Violation { return runC04(rc, -1) }})
	Register(&Scenario{Prop: "C04", Name: "upload-download-1000", Strict: false, Quick: 1, Thorough: 2, Run: func(rc *RunCtx) *simkit.Violation { return runC04(rc, 1) }})
	// one transient store error early in the upload of a tree that spans several file lists: the upload either fails and
	// shows no bundle, or reports success and then the bundle is the whole tree
	Register(&Scenario{Prop: "C04", Name: "upload-1000-one-store-error", Strict: false, Quick: 1, Thorough: 2, Run: func(rc *RunCtx) *simkit.Violation { return runC04(rc, 3) }})
	// the same files were being uploaded before (to another repository) by a process that died or met a store error inside
	// one blob write, leaving an empty or truncated blob behind: the upload that follows still reproduces the tree
	Register(&Scenario{Prop: "C04", Name: "upload-after-interrupted-upload", Strict: true, Quick: 3, Thorough: 4, Run: func(rc *RunCtx) *simkit.Violation { return runC04(rc, 4) }})
	Register(&Scenario{Prop: "C04", Name: "upload-download-2500", Strict: false, Quick: 0, Thorough: 1, Run: func(rc *RunCtx) *simkit.Violation { return runC04(rc, 2) }})
}

func createRepo(prop string, d *DM, c *simkit.Client, name string) *simkit.Violation {
	tk, v := doOp(prop, d.w, c, "create-repo "+name, func() (interface{}, error) {
		return nil, core.CreateRepo(model.RepoDescriptor{Name: name, Description: "repo " + name, Contributor: model.Contributor{Name: "sim", Email: "sim@example.com"}}, d.Stores(c))
	})
	if v != nil {
		return v
	}
	if tk.Err != nil {
		return Viol(prop, "harness", "create-repo", name, "CreateRepo(%s) failed: %v", name, tk.Err)
	}
	return nil
}

// checkEntries compares the entries of a bundle with the expected files.
func checkEntries(prop string, b *core.Bundle, want Tree, leaf uint32, what string) *simkit.Violation {
	es := entriesOf(b)
	seen := map[string]int{}
	for _, e := range es {
		seen[e.NameWithPath]++
	}
	for _, p := range want.paths() {
		if seen[p] == 0 {
			return Viol(prop, "entry-missing", what, p, "uploaded file %q has no entry in the bundle (%d entries for %d files)", p, len(es), len(want))
		}
		if seen[p] > 1 {
			return Viol(prop, "entry-duplicated", what, p, "file %q is listed %d times in the bundle", p, seen[p])
		}
	}
	for _, e := range es {
		c, ok := want[e.NameWithPath]
		if !ok {
			cls := "entry-foreign"
			if model.IsGeneratedFile(e.NameWithPath) || strings.HasPrefix(e.NameWithPath, ".datamon") {
				cls = "generated-path-uploaded"
			}
			return Viol(prop, cls, what, e.NameWithPath, "bundle lists %q which is not one of the uploaded files", e.NameWithPath)
		}
		if e.Size != uint64(len(c)) {
			return Viol(prop, "entry-size", what, e.NameWithPath, "entry %q has size %d, file has %d bytes", e.NameWithPath, e.Size, len(c))
		}
		if k := refmodel.RootHex(c, leaf); e.Hash != k {
			return Viol(prop, "entry-hash", what, e.NameWithPath, "entry %q has hash %s…, BLAKE2b tree key of its content is %s…", e.NameWithPath, e.Hash[:12], k[:12])
		}
	}
	return nil
}

func runC04(rc *RunCtx, big int) *simkit.Violation {
	const prop = "C04"
	w := rc.W
	t := w.W
	d := newDM(rc)
	d.CRC = t.Bool(3, 4)
	cl := w.Client("up")
	if v := createRepo(prop, d, cl, "r1"); v != nil {
		return v
	}
	leaf := uint32(t.Pick(64, 65, 100, 1024, 4096, 65536))
	var n int
	interrupted := big == 4
	if interrupted {
		big = 0
	}
	switch big {
	case 1:
		n = t.Pick(999, 1000, 1001)
		leaf = 64
	case 2:
		n = t.Pick(2000, 2001, 2500)
		leaf = 64
	case 3:
		n = t.Pick(1001, 1100, 1500, 2100)
		leaf = 64
	default:
		n = t.Pick(0, 1, 2, 3, 5, 10, 12)
		if rc.Thorough() && t.Bool(1, 60) {
			leaf = uint32(t.Pick(1<<20, 2<<20, 5<<20))
			n = t.Range(1, 3)
		}
	}
	tree := drawTree(t, n, leaf, "")
	decoys := drawDecoys(t, tree)
	src := memDisk()
	_ = src.MkdirAll(".", 0o755)
	if err := writeTree(src, tree); err != nil {
		return Viol(prop, "harness", "write", "", "%v", err)
	}
	if err := writeTree(src, decoys); err != nil {
		return Viol(prop, "harness", "write", "", "%v", err)
	}
	uo := uploadOpts{leaf: leaf, concUp: t.Pick(1, 2, 3, 4, 8, 20), message: "m"}
	want := tree
	expectFail := false
	mode := "whole tree"
	if big == -1 {
		// directed: an explicit key list that names one file twice
		big = 0
		if len(tree) == 0 {
			tree["only"] = []byte("x")
			_ = writeTree(src, tree)
		}
		want = Tree{}
		for _, p := range tree.paths() {
			uo.keys = append(uo.keys, p)
			want[p] = tree[p]
		}
		uo.keys = append(uo.keys, uo.keys[t.Choose(len(uo.keys))])
		mode = fmt.Sprintf("explicit keys with a repeated key %q", uo.keys)
	} else if big == 0 && len(tree) > 0 && t.Bool(1, 3) {
		// explicit key list: subset, maybe with missing, repeated and generated keys
		want = Tree{}
		ps := tree.paths()
		for _, p := range ps {
			if t.Bool(2, 3) {
				uo.keys = append(uo.keys, p)
				want[p] = tree[p]
			}
		}
		if uo.keys == nil {
			uo.keys = []string{}
		}
		if t.Bool(1, 3) {
			uo.keys = append(uo.keys, "no/such/file")
			uo.skipMissing = t.Bool(1, 2)
			expectFail = !uo.skipMissing
		}
		if t.Bool(1, 4) && len(decoys) > 0 {
			uo.keys = append(uo.keys, decoys.paths()[0]) // explicitly asking for a generated path: still never uploaded
		}
		if t.Bool(1, 3) && len(uo.keys) > 0 {
			uo.keys = append(uo.keys, uo.keys[t.Choose(len(uo.keys))]) // a repeated key
		}
		perm := t.Perm(len(uo.keys))
		ks := make([]string, len(uo.keys))
		for i, j := range perm {
			ks[i] = uo.keys[j]
		}
		uo.keys = ks
		mode = fmt.Sprintf("explicit keys %q skipMissing=%v", uo.keys, uo.skipMissing)
	}
	w.Note("tree of %d files (+%d decoys) leaf=%d concUp=%d crc=%v; upload %s", len(tree), len(decoys), leaf, uo.concUp, d.CRC, mode)
	if len(tree) <= 12 {
		w.Note("files: %q", tree.paths())
	}

	if interrupted && len(tree) > 0 {
		prev := w.Client("prev")
		if v := createRepo(prop, d, prev, "r0"); v != nil {
			return v
		}
		kind := []simkit.Kind{simkit.FTorn, simkit.FTorn, simkit.FTorn, simkit.FCrashA, simkit.FCrashB, simkit.FErr}[t.Choose(6)]
		nth, seen := t.Range(0, 8), 0
		w.Faults = &simkit.FaultCfg{Plan: []*simkit.Planned{{Client: "prev", Kind: kind, Match: func(c *simkit.Call) bool {
			if !c.Op.IsWrite() || c.Bucket != d.Blob {
				return false
			}
			seen++
			return seen-1 == nth
		}}}}
		_, pfn := d.upload(prev, d.Stores(prev), "r0", src, uploadOpts{leaf: leaf, concUp: t.Pick(1, 3), message: "interrupted"})
		w.Go(prev, "upload-interrupted", pfn)
		if v := w.Run(); v != nil {
			if v.Property == "" {
				v.Property = prop
			}
			return v
		}
		w.Faults = nil
		if fired(w) {
			w.Probe("earlier-upload-interrupted-" + kind.String())
		}
	}
	// an unrelated client working in another repo at the same time
	other := w.Client("other")
	withOther := big == 0 && t.Bool(1, 3)
	var otherTree Tree
	if withOther {
		if v := createRepo(prop, d, other, "r2"); v != nil {
			return v
		}
		otherTree = drawTree(t, t.Range(1, 4), leaf, "o")
		// share some content with the main tree (dedup across concurrent uploaders)
		for _, p := range tree.paths() {
			if t.Bool(1, 3) {
				otherTree["shared/"+fmt.Sprint(len(otherTree))] = tree[p]
			}
		}
		osrc := memDisk()
		_ = writeTree(osrc, otherTree)
		_, ofn := d.upload(other, d.Stores(other), "r2", osrc, uploadOpts{leaf: leaf, concUp: 3, message: "o"})
		w.Go(other, "upload-other", ofn)
	}
	storeErr := big == 3
	if storeErr {
		nth := t.Range(0, 60)
		w.Faults = &simkit.FaultCfg{Plan: []*simkit.Planned{{Client: "up", Nth: nth, Kind: simkit.Kind(int(simkit.FErr) + t.Choose(2))}}}
		w.Note("one store error at write #%d of the upload", nth)
		if t.Bool(1, 2) {
			// ... or at a blob write that lands while the upload's own write of a list of files is in flight (the
			// goroutine that collects the results of the file uploads is busy)
			w.Faults.Plan[0].Match = func(c *simkit.Call) bool {
				return c.Op.IsWrite() && c.Bucket == d.Blob && w.AnyParked(func(o *simkit.Call) bool {
					return o.Client == c.Client && strings.Contains(o.Key, "bundle-files-")
				})
			}
			w.Note("... rather: at the first blob write landing while a list of files is being written")
		}
	}
	_, ufn := d.upload(cl, d.Stores(cl), "r1", src, uo)
	up := w.Go(cl, "upload", ufn)
	if v := w.Run(); v != nil {
		if v.Property == "" {
			v.Property = prop
		}
		return v
	}
	for _, tk := range w.Tasks() {
		if pv := taskProblem(prop, tk, tk.Name); pv != nil {
			return pv
		}
	}
	if big > 0 {
		w.Probe("multi-index-bundle")
	}

	rd := w.Client("down")
	// what is visible now
	lt, v := doOp(prop, w, rd, "list", func() (interface{}, error) { return core.ListBundles("r1", d.Stores(rd)) })
	if v != nil {
		return v
	}
	if lt.Err != nil {
		return Viol(prop, "list-error", "ListBundles", "r1", "ListBundles failed: %v", lt.Err)
	}
	listed := lt.Result.(model.BundleDescriptors)
	if expectFail {
		if up.Err == nil {
			return Viol(prop, "missing-key-accepted", "UploadSpecificKeys", "no/such/file", "upload of an explicit key list naming a missing file succeeded without skip-missing")
		}
		if len(listed) != 0 {
			return Viol(prop, "failed-upload-visible", "ListBundles", listed[0].ID, "the upload failed (%v) but a bundle is visible", up.Err)
		}
		w.Probe("failed-upload-invisible")
		return nil
	}
	w.Faults = nil
	if storeErr && up.Err != nil {
		if len(listed) != 0 {
			return Viol(prop, "failed-upload-visible", "ListBundles", listed[0].ID, "the upload failed (%v) but a bundle is visible", up.Err)
		}
		w.Probe("upload-failed-on-store-error")
		w.Probe("nontrivial")
		return nil
	}
	if storeErr {
		w.Probe("upload-succeeded-despite-store-error")
	}
	if up.Err != nil {
		return Viol(prop, "upload-error", "Upload", "r1", "fault-free upload (%s) failed: %v", mode, up.Err)
	}
	ub := up.Result.(*core.Bundle)
	if len(listed) != 1 || listed[0].ID != ub.BundleID {
		return Viol(prop, "bundle-not-listed", "ListBundles", ub.BundleID, "after a successful upload ListBundles returns %d bundles", len(listed))
	}
	// the uploader's own view of the entries is not authoritative: read them back
	cfgD := downloadOpts{concDown: t.Pick(1, 2, 3, 10, 20), concList: t.Pick(1, 2, 10)}
	// one time in three the reader is one long-lived Bundle value: it loads the metadata, is inspected, then downloads
	sameValue := t.Bool(1, 3)
	var dst afero.Fs
	if sameValue {
		dst = memDisk()
	}
	mb, mfn := d.downloadFn(d.Stores(rd), "r1", ub.BundleID, dst, downloadOpts{metaOnly: true, concList: cfgD.concList, concDown: cfgD.concDown})
	mt, v := doOp(prop, w, rd, "download-metadata", mfn)
	if v != nil {
		return v
	}
	if mt.Err != nil {
		return Viol(prop, "metadata-error", "DownloadMetadata", ub.BundleID, "DownloadMetadata of a committed bundle failed: %v", mt.Err)
	}
	if v := checkEntries(prop, mb, want, leaf, "DownloadMetadata"); v != nil {
		return v
	}
	if mb.BundleDescriptor.LeafSize != leaf {
		return Viol(prop, "descriptor", "DownloadMetadata", ub.BundleID, "descriptor leaf size %d, uploaded with %d", mb.BundleDescriptor.LeafSize, leaf)
	}
	if len(want) == 0 {
		w.Probe("empty-bundle")
	}

	// full download
	var pfn func() (interface{}, error)
	if sameValue {
		pfn = func() (interface{}, error) { return mb, core.Publish(bg, mb) }
		w.Probe("one-bundle-value-inspects-then-downloads")
	} else {
		dst = memDisk()
		_, pfn = d.downloadFn(d.Stores(rd), "r1", ub.BundleID, dst, cfgD)
	}
	pt, v := doOp(prop, w, rd, "publish", pfn)
	if v != nil {
		return v
	}
	if pt.Err != nil {
		return Viol(prop, "download-error", "Publish", ub.BundleID, "fault-free download of a committed bundle failed: %v", pt.Err)
	}
	got, err := readTree(dst)
	if err != nil {
		return Viol(prop, "harness", "readTree", "", "%v", err)
	}
	data, meta := splitMeta(got)
	if df := diffTrees(want, data); df != "" {
		return Viol(prop, "download-differs", "Publish", ub.BundleID, "downloaded tree differs from the uploaded one: %s", df)
	}
	wantMeta := map[string]bool{model.GetConsumablePathToBundle(ub.BundleID): true}
	for i := uint64(0); i < mb.BundleDescriptor.BundleEntriesFileCount; i++ {
		wantMeta[model.GetConsumablePathToBundleFileList(ub.BundleID, i)] = true
	}
	for p := range meta {
		if !wantMeta[p] {
			return Viol(prop, "download-extra-metadata", "Publish", p, "download wrote an unexpected metadata file %q", p)
		}
	}
	if len(meta) != len(wantMeta) {
		return Viol(prop, "download-metadata-missing", "Publish", ub.BundleID, "download wrote %d metadata files, expected %d", len(meta), len(wantMeta))
	}

	// filtered and single-file downloads
	if len(want) > 0 && big == 0 {
		ps := want.paths()
		sel := map[string]bool{}
		for _, p := range ps {
			if t.Bool(1, 2) {
				sel[p] = true
			}
		}
		subset := Tree{}
		for p := range sel {
			subset[p] = want[p]
		}
		fdst := memDisk()
		_, ffn := d.downloadFn(d.Stores(rd), "r1", ub.BundleID, fdst, downloadOpts{concDown: cfgD.concDown, pred: func(s string) (bool, error) { return sel[s], nil }})
		ft, v := doOp(prop, w, rd, "publish-filtered", ffn)
		if v != nil {
			return v
		}
		if ft.Err != nil {
			return Viol(prop, "download-error", "PublishSelectBundleEntries", ub.BundleID, "filtered download failed: %v", ft.Err)
		}
		fgot, _ := readTree(fdst)
		fdata, _ := splitMeta(fgot)
		if df := diffTrees(subset, fdata); df != "" {
			return Viol(prop, "filtered-download-differs", "PublishSelectBundleEntries", ub.BundleID, "filtered download (%d of %d selected) is not exactly the selection: %s", len(subset), len(want), df)
		}
		one := ps[t.Choose(len(ps))]
		sdst := memDisk()
		_, sfn := d.downloadFn(d.Stores(rd), "r1", ub.BundleID, sdst, downloadOpts{file: one})
		st, v := doOp(prop, w, rd, "publish-file", sfn)
		if v != nil {
			return v
		}
		if st.Err != nil {
			return Viol(prop, "download-error", "PublishFile", one, "single-file download of %q failed: %v", one, st.Err)
		}
		sgot, _ := readTree(sdst)
		sdata, _ := splitMeta(sgot)
		if df := diffTrees(Tree{one: want[one]}, sdata); df != "" {
			return Viol(prop, "single-download-differs", "PublishFile", one, "single-file download is not exactly that file: %s", df)
		}
		w.Probe("filtered+single")
	}
	if withOther {
		// the concurrent uploader's bundle is intact too
		ot, v := doOp(prop, w, rd, "list-other", func() (interface{}, error) { return core.ListBundles("r2", d.Stores(rd)) })
		if v != nil {
			return v
		}
		ol, _ := ot.Result.(model.BundleDescriptors)
		if ot.Err != nil || len(ol) != 1 {
			return Viol(prop, "concurrent-upload-lost", "ListBundles", "r2", "the concurrent uploader's bundle is not listed: %d bundles, err=%v", len(ol), ot.Err)
		}
		odst := memDisk()
		_, ofn := d.downloadFn(d.Stores(rd), "r2", ol[0].ID, odst, cfgD)
		opt, v := doOp(prop, w, rd, "publish-other", ofn)
		if v != nil {
			return v
		}
		if opt.Err != nil {
			return Viol(prop, "download-error", "Publish", "r2", "download of the concurrent uploader's bundle failed: %v", opt.Err)
		}
		ogot, _ := readTree(odst)
		odata, _ := splitMeta(ogot)
		if df := diffTrees(otherTree, odata); df != "" {
			return Viol(prop, "download-differs", "Publish-concurrent", "r2", "concurrent uploader's bundle differs: %s", df)
		}
		w.Probe("concurrent-uploader")
	}
	return nil
}

var _ = sort.Strings

package props

import (
	"fmt"
	"sort"
	"time"

	"github.com/oneconcern/datamon/pkg/core"
	"github.com/oneconcern/datamon/pkg/model"
	"github.com/segmentio/ksuid"
	"gopkg.in/yaml.v2"

	"verifsim/simkit"
)

func init() {
	Register(&Scenario{Prop: "C07", Name: "listing", Strict: true, Quick: 10, Thorough: 10, Run: func(rc *RunCtx) *simkit.Violation { return runC07(rc, false, false) }})
	// observation only (weight 0, run with --scenario listing-faulty): C07 does not quantify over store faults.
	// Observed on the unchanged tree: a failing KeysPrefix makes ListSplits/ListDiamonds return a short list
	// with a nil error (mergeKeys drops the error of its input batch), a failing Get can leave the listing hung.
	Register(&Scenario{Prop: "C07", Name: "listing-faulty", Strict: false, Quick: 0, Thorough: 0, Run: func(rc *RunCtx) *simkit.Violation { return runC07(rc, true, false) }})
	// one store error at a chosen call (often the k-th page of keys) of each listing: the listing may fail (or, an observation of
	// DESIGN.md, never return), but one that returns success is still complete, exact and ordered. (Before the repair 95ae6db
	// diamond and split listings dropped a failed page and were left out.)
	Register(&Scenario{Prop: "C07", Name: "listing-one-store-error", Strict: false, Quick: 2, Thorough: 3, Run: func(rc *RunCtx) *simkit.Violation {
		c07Restricted = true
		defer func() { c07Restricted = false }()
		return runC07(rc, true, false)
	}})
	Register(&Scenario{Prop: "C07", Name: "listing-large", Strict: true, Quick: 1, Thorough: 2, Run: func(rc *RunCtx) *simkit.Violation { return runC07(rc, false, true) }})
}

func mustYAML(v interface{}) []byte {
	b, err := yaml.Marshal(v)
	if err != nil {
		panic(err)
	}
	return b
}

// newID returns a fresh KSUID at the current simulated time and moves the clock on by at least one
// second, so that ids, start times and key order agree.
func newID(t *simkit.Tape) string {
	id := ksuid.New().String()
	time.Sleep(time.Duration(1000+t.Choose(3000)) * time.Millisecond)
	return id
}

type mSplit struct {
	ID    string
	Start time.Time
	Done  bool
}

type mDiamond struct {
	ID     string
	Start  time.Time
	State  model.DiamondState
	Splits []*mSplit
}

type listModel struct {
	repos    []string
	bundles  map[string][]string // repo -> committed ids
	labels   map[string]map[string]string
	diamonds map[string][]*mDiamond
}

func seedRepo(d *DM, name string) {
	d.Meta.Seed(model.GetArchivePathToRepoDescriptor(name), mustYAML(model.RepoDescriptor{Name: name, Description: "seeded " + name, Timestamp: time.Now().UTC(), Contributor: contributor}))
}

func seedBundle(d *DM, t *simkit.Tape, repo string, committed bool, indexFiles int) string {
	id := newID(t)
	for i := 0; i < indexFiles; i++ {
		d.Meta.Seed(model.GetArchivePathToBundleFileList(repo, id, uint64(i)), mustYAML(model.BundleEntries{BundleEntries: []model.BundleEntry{{Hash: "00", NameWithPath: fmt.Sprintf("f%d", i), Size: 1}}}))
	}
	if committed {
		bd := model.NewBundleDescriptor(model.Message("seeded"))
		bd.ID = id
		bd.BundleEntriesFileCount = uint64(indexFiles)
		bd.LeafSize = 65536
		d.Meta.Seed(model.GetArchivePathToBundle(repo, id), mustYAML(bd))
	}
	return id
}

var customSplitIDs = []string{"split-", "split-west-", "diamond-", "pod-", "worker_", "splits", "bundle-files-", "s"}

func seedDiamond(d *DM, t *simkit.Tape, repo string, nSplits int, large bool) *mDiamond {
	md := &mDiamond{ID: "", State: model.DiamondInitialized}
	desc := model.NewDiamondDescriptor()
	md.ID, md.Start = desc.DiamondID, desc.StartTime
	time.Sleep(time.Duration(1000+t.Choose(2000)) * time.Millisecond)
	d.VMetOrMeta().Seed(model.GetArchivePathToInitialDiamond(repo, md.ID), mustYAML(desc))
	custom := ""
	if t.Bool(1, 3) {
		custom = customSplitIDs[t.Choose(len(customSplitIDs))]
	}
	for i := 0; i < nSplits; i++ {
		sd := model.NewSplitDescriptor()
		if custom != "" {
			// split ids chosen by the user (datamon diamond split add --split-id), also ones that look like descriptor
			// names; numbered so that id order and start-time order agree (see known finding key-order-across-pages)
			sd = model.NewSplitDescriptor(model.SplitID(fmt.Sprintf("%s%03d", custom, i)))
		}
		sd.Contributors = append(sd.Contributors, contributor)
		ms := &mSplit{ID: sd.SplitID, Start: sd.StartTime}
		time.Sleep(time.Duration(1000+t.Choose(2000)) * time.Millisecond)
		gen := ksuid.New().String()
		sd.GenerationID = gen
		d.VMetOrMeta().Seed(model.GetArchivePathToInitialSplit(repo, md.ID, ms.ID), mustYAML(sd))
		nIdx := t.Pick(0, 1, 2, 3, 5)
		if large && t.Bool(1, 3) {
			nIdx = t.Pick(20, 60)
		}
		// an abandoned earlier generation of the same split
		if t.Bool(1, 4) {
			old := ksuid.New().String()
			d.VMetOrMeta().Seed(model.GetArchivePathToSplitFileList(repo, md.ID, ms.ID, old, 0), mustYAML(model.BundleEntries{}))
		}
		for k := 0; k < nIdx; k++ {
			d.VMetOrMeta().Seed(model.GetArchivePathToSplitFileList(repo, md.ID, ms.ID, gen, uint64(k)), mustYAML(model.BundleEntries{BundleEntries: []model.BundleEntry{{Hash: "00", NameWithPath: fmt.Sprintf("s%d", k), Size: 1, Timestamp: time.Now().UTC()}}}))
		}
		if t.Bool(2, 3) {
			ms.Done = true
			sd.State = model.SplitDone
			sd.EndTime = time.Now().UTC()
			sd.SplitEntriesFileCount = uint64(nIdx)
			d.VMetOrMeta().Seed(model.GetArchivePathToFinalSplit(repo, md.ID, ms.ID), mustYAML(sd))
		}
		md.Splits = append(md.Splits, ms)
	}
	switch t.Choose(3) {
	case 1:
		md.State = model.DiamondDone
	case 2:
		md.State = model.DiamondCanceled
	}
	if md.State != model.DiamondInitialized {
		desc.State = md.State
		desc.EndTime = time.Now().UTC()
		d.VMetOrMeta().Seed(model.GetArchivePathToFinalDiamond(repo, md.ID), mustYAML(desc))
	}
	return md
}

// VMetOrMeta is the bucket diamonds and splits live in (the versioned metadata store).
func (d *DM) VMetOrMeta() *simkit.Backend { return d.VMet }

// c07Restricted: the faulty run places one error per listing and skips diamonds and splits
var c07Restricted bool

func runC07impl(rc *RunCtx, faulty, large bool) *simkit.Violation {
	restricted := c07Restricted
	const prop = "C07"
	w := rc.W
	t := w.W
	d := newDM(rc)
	if t.Bool(1, 3) {
		d.Meta.ShortPages = t.Pick(2, 3)
		d.VMet.ShortPages = d.Meta.ShortPages
		w.Probe("short-pages")
	}
	m := &listModel{bundles: map[string][]string{}, labels: map[string]map[string]string{}, diamonds: map[string][]*mDiamond{}}
	names := []string{"a", "a-b", "ab", "b", "a-b-c", "r1", "zz", "a0"}
	perm := t.Perm(len(names))
	nRepos := t.Range(1, 5)
	for i := 0; i < nRepos; i++ {
		m.repos = append(m.repos, names[perm[i]])
	}
	sort.Strings(m.repos)
	for _, r := range m.repos {
		seedRepo(d, r)
	}
	for _, r := range m.repos {
		nb := t.Pick(0, 1, 2, 3, 5, 9)
		nl := t.Pick(0, 1, 3, 7)
		nd := t.Pick(0, 1, 2, 4)
		if large && r == m.repos[0] {
			nb = t.Pick(300, 1001)
			if rc.Thorough() {
				nb = t.Pick(1001, 3000)
			}
			nl = t.Pick(40, 200)
			nd = t.Pick(5, 12)
		}
		for i := 0; i < nb; i++ {
			if t.Bool(1, 6) {
				seedBundle(d, t, r, false, t.Range(1, 3)) // leftover of an interrupted upload
				w.Probe("leftover-seeded")
			}
			m.bundles[r] = append(m.bundles[r], seedBundle(d, t, r, true, t.Pick(0, 1, 1, 2)))
		}
		if nb > 0 && t.Bool(1, 4) {
			seedBundle(d, t, r, false, 2) // a leftover with the greatest id
		}
		m.labels[r] = map[string]string{}
		for i := 0; i < nl && len(m.bundles[r]) > 0; i++ {
			name := fmt.Sprintf("%s%d", []string{"v", "v1-", "rel_", "é"}[t.Choose(4)], i)
			id := m.bundles[r][t.Choose(len(m.bundles[r]))]
			ld := model.NewLabelDescriptor(model.LabelName(name), model.LabelContributor(contributor))
			ld.BundleID = id
			d.VMet.Seed(model.GetArchivePathToLabel(r, name), mustYAML(ld))
			m.labels[r][name] = id
		}
		for i := 0; i < nd; i++ {
			ns := t.Pick(0, 1, 2, 3, 6)
			if large && r == m.repos[0] && i == 0 {
				ns = t.Pick(60, 150)
			}
			m.diamonds[r] = append(m.diamonds[r], seedDiamond(d, t, r, ns, large))
		}
	}
	cl := w.Client("lister")
	st := d.Stores(cl)
	batches := []int{1, 2, 3, 7, 100, 1024, 2048}
	if large {
		batches = []int{7, 100, 1024, 2048}
	}
	optsFor := func() (core.Option, core.Option, string) {
		b, c := batches[t.Choose(len(batches))], t.Pick(1, 2, 8, 32)
		return core.BatchSize(b), core.ConcurrentList(c), fmt.Sprintf("batch=%d conc=%d", b, c)
	}
	w.Note("repos %v bundles %v labels %v diamonds %v shortPages=%d", m.repos, countMap(m.bundles), countMapL(m.labels), countMapD(m.diamonds), d.Meta.ShortPages)
	if faulty {
		w.Faults = &simkit.FaultCfg{Err: 25, Stall: 10, Budget: 2}
	}
	fail := func(class, what, obj, f string, a ...interface{}) *simkit.Violation {
		return Viol(prop, class, what, obj, f, a...)
	}
	// generic comparison: got ids vs want ids
	cmp := func(what, desc string, got, want []string, ordered bool, err error) *simkit.Violation {
		if err != nil {
			if faulty && w.Stats.Faults["F-ERR"] > 0 {
				w.Probe("fault-surfaced-as-error")
				return nil
			}
			return fail("list-error", what, desc, "%s (%s) failed without any fault: %v", what, desc, err)
		}
		seen := map[string]int{}
		for _, g := range got {
			seen[g]++
			if seen[g] > 1 {
				return fail("listed-twice", what, g, "%s (%s) returned %q %d times", what, desc, g, seen[g])
			}
		}
		wantSet := map[string]bool{}
		for _, x := range want {
			wantSet[x] = true
			if seen[x] == 0 {
				return fail("missing", what, x, "%s (%s) returned %d of %d objects; %q is missing", what, desc, len(got), len(want), x)
			}
		}
		for _, g := range got {
			if !wantSet[g] {
				return fail("foreign", what, g, "%s (%s) returned %q which is not an object of that kind in that repository", what, desc, g)
			}
		}
		if ordered {
			for i := range want {
				if got[i] != want[i] {
					return fail("order", what, got[i], "%s (%s): position %d holds %q, documented order puts %q there", what, desc, i, got[i], want[i])
				}
			}
		}
		return nil
	}
	run := func(name string, fn func() (interface{}, error)) (*simkit.Task, *simkit.Violation) {
		if faulty {
			w.Faults.Budget = 2
			w.Stats.Faults["F-ERR"] = 0
		}
		if restricted {
			w.Faults = &simkit.FaultCfg{}
			if t.Bool(2, 3) {
				k, n := t.Pick(0, 1, 1, 2, 2, 3, 5), 0
				w.Faults.Plan = []*simkit.Planned{{Client: "lister", Kind: simkit.FErr, Match: func(c *simkit.Call) bool {
					if c.Op != simkit.OpKeysPrefix && c.Op != simkit.OpKeys {
						return false
					}
					n++
					return n-1 == k
				}}}
			} else {
				w.Faults.Plan = []*simkit.Planned{{Client: "lister", Kind: simkit.FErr, Any: true, Nth: cl.Calls + t.Range(0, 12)}}
			}
		}
		tk, v := doOp(prop, w, cl, name, fn)
		if v != nil && v.Class == "deadlock" && faulty && w.Stats.Faults["F-ERR"] > 0 {
			// a listing that never returns after a store error is not a wrong listing: outside the
			// statement of C07 (recorded as an observation in DESIGN.md); the world is wedged, stop here
			w.Probe("hang-after-store-error")
			return tk, &simkit.Violation{Class: "stop"}
		}
		return tk, v
	}

	// repos
	{
		o1, o2, desc := optsFor()
		repoApply := t.Bool(1, 3)
		tk, v := run("list-repos", func() (interface{}, error) {
			if repoApply {
				var rs []model.RepoDescriptor
				err := core.ListReposApply(st, func(x model.RepoDescriptor) error { rs = append(rs, x); return nil }, o1, o2)
				return rs, err
			}
			return core.ListRepos(st, o1, o2)
		})
		if v != nil {
			return v
		}
		var got []string
		if tk.Err == nil {
			for _, r := range tk.Result.([]model.RepoDescriptor) {
				got = append(got, r.Name)
			}
		}
		if v := cmp("ListRepos", desc, got, m.repos, false, tk.Err); v != nil {
			return v
		}
	}
	for _, r := range m.repos {
		useApply := t.Bool(1, 3)
		// bundles
		{
			o1, o2, desc := optsFor()
			desc = r + " " + desc
			var got []string
			tk, v := run("list-bundles", func() (interface{}, error) {
				if useApply {
					var ids []string
					err := core.ListBundlesApply(r, st, func(b model.BundleDescriptor) error { ids = append(ids, b.ID); return nil }, o1, o2)
					return ids, err
				}
				bs, err := core.ListBundles(r, st, o1, o2)
				var ids []string
				for _, b := range bs {
					ids = append(ids, b.ID)
				}
				return ids, err
			})
			if v != nil {
				return v
			}
			if tk.Err == nil {
				got, _ = tk.Result.([]string)
			}
			want := append([]string(nil), m.bundles[r]...)
			sort.Strings(want)
			if v := cmp("ListBundles", desc, got, want, true, tk.Err); v != nil {
				return v
			}
		}
		// labels
		{
			o1, o2, desc := optsFor()
			desc = r + " " + desc
			tk, v := run("list-labels", func() (interface{}, error) {
				if useApply {
					var ls []model.LabelDescriptor
					err := core.ListLabelsApply(r, st, func(l model.LabelDescriptor) error { ls = append(ls, l); return nil }, o1, o2)
					return ls, err
				}
				return core.ListLabels(r, st, o1, o2)
			})
			if v != nil {
				return v
			}
			var got []string
			if tk.Err == nil {
				for _, l := range tk.Result.([]model.LabelDescriptor) {
					got = append(got, l.Name)
					if m.labels[r][l.Name] != "" && m.labels[r][l.Name] != l.BundleID {
						return fail("label-target", "ListLabels", l.Name, "label %q listed with bundle %s, model %s", l.Name, l.BundleID, m.labels[r][l.Name])
					}
				}
			}
			if v := cmp("ListLabels", desc, got, sortedKeys(m.labels[r]), false, tk.Err); v != nil {
				return v
			}
		}
		// diamonds
		{
			o1, o2, desc := optsFor()
			desc = r + " " + desc
			tk, v := run("list-diamonds", func() (interface{}, error) {
				if useApply {
					var ds model.DiamondDescriptors
					err := core.ListDiamondsApply(r, st, func(x model.DiamondDescriptor) error { ds = append(ds, x); return nil }, o1, o2)
					return ds, err
				}
				return core.ListDiamonds(r, st, o1, o2)
			})
			if v != nil {
				return v
			}
			var got, want []string
			if tk.Err == nil {
				for _, x := range tk.Result.(model.DiamondDescriptors) {
					got = append(got, x.DiamondID)
					for _, md := range m.diamonds[r] {
						if md.ID == x.DiamondID && md.State != x.State {
							return fail("diamond-state", "ListDiamonds", x.DiamondID, "diamond listed in state %q, its latest state is %q", x.State, md.State)
						}
					}
				}
			}
			for _, md := range m.diamonds[r] {
				want = append(want, md.ID) // seeded in start-time order, at least one second apart
			}
			if v := cmp("ListDiamonds", desc, got, want, true, tk.Err); v != nil {
				return v
			}
		}
		// splits of each diamond
		for _, md := range m.diamonds[r] {
			o1, o2, desc := optsFor()
			desc = r + "/" + md.ID[:6] + " " + desc
			did := md.ID
			tk, v := run("list-splits", func() (interface{}, error) {
				if useApply {
					var ss model.SplitDescriptors
					err := core.ListSplitsApply(r, did, st, func(x model.SplitDescriptor) error { ss = append(ss, x); return nil }, o1, o2)
					return ss, err
				}
				return core.ListSplits(r, did, st, o1, o2)
			})
			if v != nil {
				return v
			}
			var got, want []string
			if tk.Err == nil {
				for _, x := range tk.Result.(model.SplitDescriptors) {
					got = append(got, x.SplitID)
					for _, ms := range md.Splits {
						if ms.ID == x.SplitID && ms.Done != (x.State == model.SplitDone) {
							return fail("split-state", "ListSplits", x.SplitID, "split listed in state %q, done=%v in the model", x.State, ms.Done)
						}
					}
				}
			}
			for _, ms := range md.Splits {
				want = append(want, ms.ID)
			}
			if v := cmp("ListSplits", desc, got, want, true, tk.Err); v != nil {
				return v
			}
		}
	}
	if large {
		w.Probe("nontrivial")
	}
	return nil
}

func runC07(rc *RunCtx, faulty, large bool) *simkit.Violation {
	v := runC07impl(rc, faulty, large)
	if v != nil && v.Class == "stop" {
		return nil
	}
	return v
}

func countMap(m map[string][]string) map[string]int {
	o := map[string]int{}
	for k, v := range m {
		o[k] = len(v)
	}
	return o
}
func countMapL(m map[string]map[string]string) map[string]int {
	o := map[string]int{}
	for k, v := range m {
		o[k] = len(v)
	}
	return o
}
func countMapD(m map[string][]*mDiamond) map[string]string {
	o := map[string]string{}
	for k, v := range m {
		s := ""
		for _, d := range v {
			s += fmt.Sprintf("%d,", len(d.Splits))
		}
		o[k] = s
	}
	return o
}

func init() {
	Register(&Scenario{Prop: "C07", Name: "listing-api-created", Strict: true, Quick: 3, Thorough: 4, Run: runC07API})
}

// runC07API populates the stores through the real API (create repo, upload, label set, diamond initialize, split add,
// commit / cancel) instead of seeding objects, then lists everything with small pages.
func runC07API(rc *RunCtx) *simkit.Violation {
	const prop = "C07"
	w := rc.W
	t := w.W
	d := newDM(rc)
	setup := w.Client("setup")
	leaf := uint32(64)
	names := []string{"a", "a-b", "ab"}
	nRepos := t.Range(1, 3)
	type rstate struct {
		model    *mRepo
		diamonds []*mDiamond
	}
	repos := map[string]*rstate{}
	for i := 0; i < nRepos; i++ {
		rn := names[i]
		if v := createRepo(prop, d, setup, rn); v != nil {
			return v
		}
		rs := &rstate{model: &mRepo{Name: rn, Labels: map[string]string{}}}
		repos[rn] = rs
		for b := 0; b < t.Range(0, 3); b++ {
			if _, v := addBundle(prop, d, setup, rs.model, Tree{fmt.Sprintf("f%d", b): t.Bytes(t.Range(0, 90))}, leaf, 2); v != nil {
				return v
			}
			time.Sleep(1100 * time.Millisecond)
			if t.Bool(1, 2) {
				if v := addLabel(prop, d, setup, rs.model, fmt.Sprintf("v%d", b), rs.model.Bundles[t.Choose(len(rs.model.Bundles))].ID); v != nil {
					return v
				}
			}
		}
		for di := 0; di < t.Range(0, 2); di++ {
			ct, v := doOp(prop, w, setup, "diamond-init", createDiamondFn(d.Stores(setup), rn))
			if v != nil {
				return v
			}
			if ct.Err != nil {
				return Viol(prop, "harness", "CreateDiamond", rn, "%v", ct.Err)
			}
			md := &mDiamond{ID: ct.Result.(string), State: model.DiamondInitialized}
			time.Sleep(1100 * time.Millisecond)
			customPrefix := ""
			if t.Bool(1, 2) {
				customPrefix = customSplitIDs[t.Choose(len(customSplitIDs))]
			}
			for si := 0; si < t.Range(0, 3); si++ {
				src := memDisk()
				_ = writeTree(src, Tree{fmt.Sprintf("s%d/x", si): t.Bytes(10), "shared": []byte("same")})
				var sid string
				chosen := ""
				if customPrefix != "" {
					chosen = fmt.Sprintf("%s%03d", customPrefix, si)
					w.Probe("user-chosen-split-id")
				}
				st, v := doOp(prop, w, setup, "split-add", splitAddFn(d.Stores(setup), rn, md.ID, chosen, src, 2, leaf, &sid))
				if v != nil {
					return v
				}
				if st.Err != nil {
					return Viol(prop, "harness", "split add", rn, "%v", st.Err)
				}
				md.Splits = append(md.Splits, &mSplit{ID: sid, Done: true})
				time.Sleep(1100 * time.Millisecond)
			}
			switch {
			case len(md.Splits) > 0 && t.Bool(1, 2):
				cm, v := doOp(prop, w, setup, "commit", commitFn(d.Stores(setup), rn, md.ID, model.IgnoreConflicts, leaf, nil))
				if v != nil {
					return v
				}
				if cm.Err != nil {
					return Viol(prop, "harness", "commit", rn, "%v", cm.Err)
				}
				md.State = model.DiamondDone
				rs.model.Bundles = append(rs.model.Bundles, &mBundle{ID: cm.Result.(commitRes).BundleID})
			case t.Bool(1, 3):
				cn, v := doOp(prop, w, setup, "cancel", cancelFn(d.Stores(setup), rn, md.ID))
				if v != nil {
					return v
				}
				if cn.Err != nil {
					return Viol(prop, "harness", "cancel", rn, "%v", cn.Err)
				}
				md.State = model.DiamondCanceled
			}
			rs.diamonds = append(rs.diamonds, md)
		}
	}
	cl := w.Client("lister")
	st := d.Stores(cl)
	opt := func() []core.Option {
		return []core.Option{core.BatchSize(t.Pick(1, 2, 3, 1024)), core.ConcurrentList(t.Pick(1, 4))}
	}
	sameSet := func(what, where string, got, want []string, ordered bool) *simkit.Violation {
		g, wv := append([]string(nil), got...), append([]string(nil), want...)
		if !ordered {
			sort.Strings(g)
			sort.Strings(wv)
		}
		if fmt.Sprint(g) != fmt.Sprint(wv) {
			cls := "missing"
			if len(g) >= len(wv) {
				cls = "foreign"
			}
			gs, ws := append([]string(nil), g...), append([]string(nil), wv...)
			sort.Strings(gs)
			sort.Strings(ws)
			if fmt.Sprint(gs) == fmt.Sprint(ws) {
				cls = "order"
			}
			return Viol(prop, cls, what, where, "%s(%s) returned %v, the API created %v", what, where, tails(g), tails(wv))
		}
		return nil
	}
	w.Note("%d repos populated through the API", nRepos)
	for _, rn := range sortedKeys(repos) {
		rs := repos[rn]
		lt, v := doOp(prop, w, cl, "list-bundles", func() (interface{}, error) { return core.ListBundles(rn, st, opt()...) })
		if v != nil {
			return v
		}
		if lt.Err != nil {
			return Viol(prop, "list-error", "ListBundles", rn, "%v", lt.Err)
		}
		var got []string
		for _, b := range lt.Result.(model.BundleDescriptors) {
			got = append(got, b.ID)
		}
		if v := sameSet("ListBundles", rn, got, rs.model.ids(), true); v != nil {
			return v
		}
		ll, v := doOp(prop, w, cl, "list-labels", func() (interface{}, error) { return core.ListLabels(rn, st, opt()...) })
		if v != nil {
			return v
		}
		if ll.Err != nil {
			return Viol(prop, "list-error", "ListLabels", rn, "%v", ll.Err)
		}
		got = nil
		for _, l := range ll.Result.([]model.LabelDescriptor) {
			got = append(got, l.Name)
		}
		if v := sameSet("ListLabels", rn, got, sortedKeys(rs.model.Labels), false); v != nil {
			return v
		}
		ld, v := doOp(prop, w, cl, "list-diamonds", func() (interface{}, error) { return core.ListDiamonds(rn, st, opt()...) })
		if v != nil {
			return v
		}
		if ld.Err != nil {
			return Viol(prop, "list-error", "ListDiamonds", rn, "%v", ld.Err)
		}
		got = nil
		var want []string
		for _, x := range ld.Result.(model.DiamondDescriptors) {
			got = append(got, x.DiamondID)
			for _, md := range rs.diamonds {
				if md.ID == x.DiamondID && md.State != x.State {
					return Viol(prop, "diamond-state", "ListDiamonds", x.DiamondID, "diamond listed as %q, its state is %q", x.State, md.State)
				}
			}
		}
		for _, md := range rs.diamonds {
			want = append(want, md.ID)
		}
		if v := sameSet("ListDiamonds", rn, got, want, true); v != nil {
			return v
		}
		for _, md := range rs.diamonds {
			did := md.ID
			ls, v := doOp(prop, w, cl, "list-splits", func() (interface{}, error) { return core.ListSplits(rn, did, st, opt()...) })
			if v != nil {
				return v
			}
			if ls.Err != nil {
				return Viol(prop, "list-error", "ListSplits", did, "%v", ls.Err)
			}
			got, want = nil, nil
			for _, x := range ls.Result.(model.SplitDescriptors) {
				got = append(got, x.SplitID)
				if x.State != model.SplitDone {
					return Viol(prop, "split-state", "ListSplits", x.SplitID, "a completed split is listed as %q", x.State)
				}
			}
			for _, ms := range md.Splits {
				want = append(want, ms.ID)
			}
			if v := sameSet("ListSplits", rn+"/"+tail4(did), got, want, true); v != nil {
				return v
			}
		}
	}
	lr, v := doOp(prop, w, cl, "list-repos", func() (interface{}, error) { return core.ListRepos(st, opt()...) })
	if v != nil {
		return v
	}
	if lr.Err != nil {
		return Viol(prop, "list-error", "ListRepos", "", "%v", lr.Err)
	}
	var got []string
	for _, r := range lr.Result.([]model.RepoDescriptor) {
		got = append(got, r.Name)
	}
	if v := sameSet("ListRepos", "", got, sortedKeys(repos), false); v != nil {
		return v
	}
	w.Probe("nontrivial")
	return nil
}

func init() {
	Register(&Scenario{Prop: "C07", Name: "known-key-order-across-pages", Strict: true, Quick: 1, Thorough: 1, Run: runC07KnownOrder})
}

// runC07KnownOrder reproduces the recorded finding: listings sort by start time inside one page of keys only, pages
// follow key order, so splits with user-chosen ids whose lexical order disagrees with their start order come out of
// order as soon as they fall into different pages.
func runC07KnownOrder(rc *RunCtx) *simkit.Violation {
	const prop = "C07"
	w := rc.W
	t := w.W
	d := newDM(rc)
	setup := w.Client("setup")
	if v := createRepo(prop, d, setup, "r1"); v != nil {
		return v
	}
	ct, v := doOp(prop, w, setup, "diamond-init", createDiamondFn(d.Stores(setup), "r1"))
	if v != nil {
		return v
	}
	if ct.Err != nil {
		return Viol(prop, "harness", "CreateDiamond", "r1", "%v", ct.Err)
	}
	did := ct.Result.(string)
	ids := []string{"b-started-first", "a-started-second"}
	for i, id := range ids {
		time.Sleep(time.Duration(1100+t.Choose(3000)) * time.Millisecond)
		src := memDisk()
		_ = writeTree(src, Tree{fmt.Sprintf("f%d", i): t.Bytes(10)})
		st, v := doOp(prop, w, setup, "split-add", splitAddFn(d.Stores(setup), "r1", did, id, src, 2, 64, nil))
		if v != nil {
			return v
		}
		if st.Err != nil {
			return Viol(prop, "harness", "split add", "r1", "%v", st.Err)
		}
	}
	cl := w.Client("lister")
	for _, batch := range []int{1024, 2, 1} {
		b := batch
		tk, v := doOp(prop, w, cl, "list-splits", func() (interface{}, error) {
			return core.ListSplits("r1", did, d.Stores(cl), core.BatchSize(b), core.ConcurrentList(t.Pick(1, 4)))
		})
		if v != nil {
			return v
		}
		if tk.Err != nil {
			return Viol(prop, "list-error", "ListSplits", did, "ListSplits failed: %v", tk.Err)
		}
		var got []string
		for _, x := range tk.Result.(model.SplitDescriptors) {
			got = append(got, x.SplitID)
		}
		if len(got) != 2 {
			return Viol(prop, "missing", "ListSplits", did, "ListSplits (batch %d) returned %v, want both of %v", b, got, ids)
		}
		if got[0] != ids[0] || got[1] != ids[1] {
			w.Probe("nontrivial")
			return Viol(prop, "order", "key-order-across-pages", did, "ListSplits with page size %d returned %v: the documented order is by start time, %v", b, got, ids)
		}
	}
	return nil
}

package props

import (
	"bytes"
	"fmt"
	"io"

	"github.com/oneconcern/datamon/pkg/cafs"

	"verifsim/refmodel"
	"verifsim/simkit"
)

func init() {
	Register(&Scenario{Prop: "C02", Name: "keys-dedup", Strict: true, Quick: 10, Thorough: 10, Run: func(rc *RunCtx) *simkit.Violation { return runC02(rc, false) }})
	Register(&Scenario{Prop: "C02", Name: "keys-dedup-torn-leftovers", Strict: true, Quick: 4, Thorough: 5, Run: func(rc *RunCtx) *simkit.Violation { return runC02(rc, true) }})
	// a Put that fails on a store error is repeated through the same cafs.Fs: whatever the first attempt left behind
	// (in the store or in the Fs), a Put that reports success has stored every blob of the content
	Register(&Scenario{Prop: "C02", Name: "keys-dedup-failed-put-retried", Strict: true, Quick: 3, Thorough: 4, Run: func(rc *RunCtx) *simkit.Violation {
		c02Retry = true
		defer func() { c02Retry = false }()
		return runC02(rc, false)
	}})
}

// contentFamily draws n contents that share leaves in the ways dedup must cope with.
func contentFamily(t *simkit.Tape, leaf uint32, n int) [][]byte {
	L := int(leaf)
	base := t.Bytes(t.Range(1, 4)*L + t.Pick(0, 0, 1, L/2, L-1))
	out := [][]byte{base}
	for len(out) < n {
		switch t.Choose(8) {
		case 0: // identical
			out = append(out, append([]byte(nil), base...))
		case 1: // prefix at a leaf boundary
			out = append(out, append([]byte(nil), base[:min(len(base), t.Range(0, 3)*L)]...))
		case 2: // prefix cut inside a leaf
			out = append(out, append([]byte(nil), base[:t.Range(0, len(base))]...))
		case 3: // last byte changed
			c := append([]byte(nil), base...)
			c[len(c)-1] ^= 0x55
			out = append(out, c)
		case 4: // the same leaf at several indexes
			lf := base[:L]
			out = append(out, bytes.Repeat(lf, t.Range(1, 4)))
		case 5: // first leaf as a short last leaf of another object / extended by one byte
			c := append([]byte(nil), base[:L]...)
			if t.Bool(1, 2) {
				c = append(c, 7)
			} else {
				c = c[:L-1]
			}
			out = append(out, c)
		case 6: // leaves swapped
			if len(base) >= 2*L {
				c := append([]byte(nil), base[L:2*L]...)
				c = append(c, base[:L]...)
				c = append(c, base[2*L:]...)
				out = append(out, c)
			} else {
				out = append(out, []byte{})
			}
		default: // unrelated
			out = append(out, t.Bytes(drawLen(t, leaf)))
		}
	}
	return out
}

// expectedBlobs maps every blob key the model derives from a content to its bytes.
func expectedBlobs(content []byte, leaf uint32, into map[string][]byte) (rootHex string, keys []byte) {
	root, leaves := refmodel.TreeKeys(content, leaf)
	L := int(leaf)
	for i, lk := range leaves {
		lo := i * L
		hi := min(len(content), lo+L)
		into[refmodel.Hex(lk)] = content[lo:hi]
		keys = append(keys, lk[:]...)
	}
	rootBlob := append(append([]byte(nil), keys...), root[:]...)
	into[refmodel.Hex(root)] = rootBlob
	return refmodel.Hex(root), keys
}

var c02Retry bool

func runC02(rc *RunCtx, torn bool) *simkit.Violation {
	const prop = "C02"
	w := rc.W
	t := w.W
	kn := drawKnobs(t, rc.Thorough())
	if kn.leaf > 65536 {
		kn.leaf = 65536
	}
	if torn {
		kn.crc = true // a truncated non-empty blob is only detectable through the store's CRC32C
	}
	nContents := t.Range(2, 5)
	contents := contentFamily(t, kn.leaf, nContents)
	blob := w.Bucket("blob")
	expected := map[string][]byte{}
	roots := make([]string, len(contents))
	leafKeys := make([][]byte, len(contents))
	for i, c := range contents {
		roots[i], leafKeys[i] = expectedBlobs(c, kn.leaf, expected)
	}
	// different contents => different keys (model side; the implementation is compared with the model)
	for i := range contents {
		for j := range contents {
			if i < j && !bytes.Equal(contents[i], contents[j]) && roots[i] == roots[j] {
				return Viol(prop, "collision", "model", roots[i], "two different contents got the same key")
			}
		}
	}

	// per-event invariant: nothing valid is ever rewritten differently, nothing foreign is written
	w.OnEvent(func(ev *simkit.Event) *simkit.Violation {
		if ev.Bucket != "blob" || (ev.Op != simkit.OpPut && ev.Op != simkit.OpPutExcl) {
			return nil
		}
		want, ok := expected[ev.Key]
		if !ok {
			return Viol(prop, "foreign-blob-key", "Put", ev.Key, "a blob was written under a key that is not the BLAKE2b tree key of any leaf/root of the stored contents")
		}
		if !bytes.Equal(want, ev.Data) {
			return Viol(prop, "blob-altered", "Put", ev.Key, "blob %s… written with %d bytes that differ from the %d bytes its key stands for", ev.Key[:12], len(ev.Data), len(want))
		}
		return nil
	})

	nClients := t.Range(1, 3)
	type put struct {
		client  int
		content int
		src     io.Reader
		desc    string
		task    *simkit.Task
	}
	fss := make([]cafs.Fs, nClients)
	for i := range fss {
		k := kn
		k.flushes = t.Pick(1, 2, 3, 10, 16)
		var err error
		fss[i], err = newCafs(w.Client(fmt.Sprintf("c%d", i)).Store(blob), k)
		if err != nil {
			return Viol(prop, "harness", "cafs.New", "", "%v", err)
		}
	}
	w.Note("cafs %s clients=%d contents(len)=%v", kn, nClients, lens(contents))

	// phase 0 (torn configuration): an earlier uploader dies / is cut while writing
	if torn {
		victim := w.Client("early")
		vfs, _ := newCafs(victim.Store(blob), kn)
		ci := t.Choose(len(contents))
		w.Faults = &simkit.FaultCfg{Torn: 400, Crash: 150, Budget: t.Range(1, 3), Eligible: func(c *simkit.Call) bool { return c.Client == victim }}
		src, _ := drawSource(t, contents[ci], kn.leaf)
		w.Note("early uploader puts content %d under torn-write/crash faults", ci)
		w.Go(victim, "early-put", func() (interface{}, error) { return vfs.Put(bg, src) })
		if v := w.Run(); v != nil {
			v.Property = prop
			return v
		}
		w.Faults = nil
		if w.Stats.Faults["F-TORN"]+w.Stats.Faults["F-CRASH-A"]+w.Stats.Faults["F-CRASH-B"] > 0 {
			w.Probe("nontrivial")
		}
		if !victim.Dead {
			w.Kill(victim)
		}
	}

	// when a Put returns success every blob of its content is in the store (checked at that very moment, from the task)
	ackCheck := func(ci int, who string) {
		tmp := map[string][]byte{}
		expectedBlobs(contents[ci], kn.leaf, tmp)
		for _, k := range sortedKeys(tmp) {
			if o := blob.Peek(k); o == nil {
				w.Fail(Viol(prop, "blob-missing", "at-acknowledgement", k[:12], "%s: Put of content %d returned success while blob %s… is not in the store (yet)", who, ci, k[:12]))
				return
			}
		}
	}
	// phase 0' (retry configuration): a Put meets a store error on one of its blob writes and fails; the same content is
	// then put again through the same Fs
	if c02Retry {
		ci := t.Choose(len(contents))
		fi := t.Choose(nClients)
		cl := w.Client(fmt.Sprintf("c%d", fi))
		w.Faults = &simkit.FaultCfg{Plan: []*simkit.Planned{{Client: cl.Name, Nth: t.Range(0, 4), Kind: simkit.Kind(int(simkit.FErr) + t.Choose(2))}}}
		if t.Bool(1, 2) {
			// a short outage on one blob: its write fails 1..4 times in a row (whatever retries the writer makes)
			tmp := map[string][]byte{}
			expectedBlobs(contents[ci], kn.leaf, tmp)
			ks := sortedKeys(tmp)
			victimKey := ks[t.Choose(len(ks))]
			times := t.Range(1, 4)
			w.Faults = &simkit.FaultCfg{Plan: []*simkit.Planned{{Client: cl.Name, Kind: simkit.FErr, Times: times, Match: func(c *simkit.Call) bool {
				return (c.Op == simkit.OpPut || c.Op == simkit.OpPutExcl) && c.Key == victimKey
			}}}}
			w.Note("outage: the write of blob %s… fails %d time(s) in a row", victimKey[:10], times)
		}
		src, _ := drawSource(t, contents[ci], kn.leaf)
		ft := w.Go(cl, "put-failing", func() (interface{}, error) {
			res, err := fss[fi].Put(bg, src)
			if err == nil {
				ackCheck(ci, "Put under a store outage on one blob")
			}
			return res, err
		})
		if v := w.Run(); v != nil {
			v.Property = prop
			return v
		}
		w.Faults = nil
		if ft.Err != nil {
			w.Probe("nontrivial")
			w.Probe("put-failed-on-store-error")
			src2, desc2 := drawSource(t, contents[ci], kn.leaf)
			rt := w.Go(cl, "put-retry", func() (interface{}, error) {
				res, err := fss[fi].Put(bg, src2)
				if err == nil {
					ackCheck(ci, "retry after a failed Put")
				}
				return res, err
			})
			if v := w.Run(); v != nil {
				if v.Property == "" {
					v.Property = prop
				}
				return v
			}
			if rt.Err != nil {
				return Viol(prop, "put-error", "Put-retry", roots[ci][:12], "the fault-free retry (via %s) of a Put that had failed on a store error failed too: %v", desc2, rt.Err)
			}
		}
	}

	// retry configuration, variant: a Put that will meet a store error runs CONCURRENTLY with the other clients' Puts of
	// overlapping content (its own client and Fs): whatever it does when it fails - cleaning up after itself included -
	// the contents the others were acknowledged must stay intact
	var failing *simkit.Task
	if c02Retry && t.Bool(1, 2) {
		ci := t.Choose(len(contents))
		fc := w.Client("cfail")
		ffs, err := newCafs(fc.Store(blob), kn)
		if err != nil {
			return Viol(prop, "harness", "cafs.New", "", "%v", err)
		}
		w.Faults = &simkit.FaultCfg{Plan: []*simkit.Planned{{Client: "cfail", Nth: t.Range(0, 5), Kind: simkit.Kind(int(simkit.FErr) + t.Choose(2))}}}
		src, _ := drawSource(t, contents[ci], kn.leaf)
		w.Note("client cfail puts content %d and meets one store error, concurrently with the others", ci)
		failing = w.Go(fc, "put-failing-concurrent", func() (interface{}, error) { return ffs.Put(bg, src) })
	}

	// phase 1: concurrent puts
	rounds := t.Range(1, 2)
	acked := map[int]cafs.PutRes{}
	for r := 0; r < rounds; r++ {
		var puts []*put
		np := t.Range(1, 4)
		for i := 0; i < np; i++ {
			p := &put{client: t.Choose(nClients), content: t.Choose(len(contents))}
			p.src, p.desc = drawSource(t, contents[p.content], kn.leaf)
			puts = append(puts, p)
		}
		for i, p := range puts {
			p := p
			w.Note("round %d: c%d puts content %d via %s", r, p.client, p.content, p.desc)
			p.task = w.Go(w.Client(fmt.Sprintf("c%d", p.client)), fmt.Sprintf("put%d.%d", r, i), func() (interface{}, error) {
				res, err := fss[p.client].Put(bg, p.src)
				if err == nil {
					ackCheck(p.content, fmt.Sprintf("c%d", p.client))
				}
				return res, err
			})
		}
		if v := w.Run(); v != nil {
			if v.Property == "" {
				v.Property = prop
			}
			return v
		}
		if failing != nil && r == 0 {
			w.Faults = nil
			if failing.Err != nil {
				w.Probe("nontrivial")
				w.Probe("concurrent-put-failed-on-store-error")
			}
		}
		for _, p := range puts {
			if pv := taskProblem(prop, p.task, "Put"); pv != nil {
				return pv
			}
			if p.task.Err != nil {
				return Viol(prop, "put-error", "Put", roots[p.content][:12], "Put of content %d (%d bytes) failed without any fault on this client: %v", p.content, len(contents[p.content]), p.task.Err)
			}
			res := p.task.Result.(cafs.PutRes)
			if res.Key.String() != roots[p.content] {
				return Viol(prop, "wrong-key", "Put", roots[p.content][:12], "Put of %d bytes at leaf %d via %s returned key %s…, BLAKE2b tree model says %s…", len(contents[p.content]), kn.leaf, p.desc, res.Key.String()[:16], roots[p.content][:16])
			}
			if !bytes.Equal(res.Keys, leafKeys[p.content]) {
				return Viol(prop, "wrong-leaf-keys", "Put", roots[p.content][:12], "Put returned %d bytes of leaf keys that differ from the model's %d", len(res.Keys), len(leafKeys[p.content]))
			}
			if res.Written != int64(len(contents[p.content])) {
				return Viol(prop, "written-size", "Put", roots[p.content][:12], "Written=%d for %d bytes", res.Written, len(contents[p.content]))
			}
			if _, before := acked[p.content]; before && !res.Found {
				return Viol(prop, "duplicate-not-reported", "Put", roots[p.content][:12], "content %d had been stored and acknowledged in an earlier round, a later Put reports Found=false", p.content)
			}
		}
		for _, p := range puts {
			acked[p.content] = p.task.Result.(cafs.PutRes)
		}
	}

	// end state: every blob of every acknowledged content holds exactly the expected bytes
	for ci := range acked {
		tmp := map[string][]byte{}
		expectedBlobs(contents[ci], kn.leaf, tmp)
		for _, k := range sortedKeys(tmp) {
			o := blob.Peek(k)
			if o == nil {
				return Viol(prop, "blob-missing", "end-state", k[:12], "content %d was acknowledged but blob %s… is not in the store", ci, k[:12])
			}
			if !bytes.Equal(o.Data, tmp[k]) {
				return Viol(prop, "blob-wrong", "end-state", k[:12], "content %d was acknowledged but blob %s… holds %d bytes that differ from the %d expected (torn leftover not repaired?)", ci, k[:12], len(o.Data), len(tmp[k]))
			}
		}
	}
	// and reads back through a fresh cafs
	rfs, _ := newCafs(w.Client("reader").Store(blob), kn)
	w.Go(w.Client("reader"), "readback", func() (interface{}, error) {
		for _, ci := range sortedInts(acked) {
			key, err := cafs.KeyFromString(roots[ci])
			if err != nil {
				return nil, err
			}
			r, err := rfs.Get(bg, key)
			if err != nil {
				w.Fail(Viol(prop, "readback", "Get", roots[ci][:12], "acknowledged content %d cannot be opened: %v", ci, err))
				return nil, nil
			}
			got, err := io.ReadAll(r)
			if err != nil || !bytes.Equal(got, contents[ci]) {
				w.Fail(Viol(prop, "readback", "Read", roots[ci][:12], "acknowledged content %d reads back %d bytes, err=%v, equal=%v", ci, len(got), err, bytes.Equal(got, contents[ci])))
				return nil, nil
			}
		}
		return nil, nil
	})
	if v := w.Run(); v != nil {
		if v.Property == "" {
			v.Property = prop
		}
		return v
	}
	for _, tk := range w.Tasks() {
		if pv := taskProblem(prop, tk, tk.Name); pv != nil {
			return pv
		}
	}
	return nil
}

func lens(cs [][]byte) []int {
	out := make([]int, len(cs))
	for i, c := range cs {
		out[i] = len(c)
	}
	return out
}

func sortedInts[V any](m map[int]V) []int {
	var out []int
	for k := range m {
		out = append(out, k)
	}
	for i := range out {
		for j := i + 1; j < len(out); j++ {
			if out[j] < out[i] {
				out[i], out[j] = out[j], out[i]
			}
		}
	}
	return out
}

package props

import (
	"bytes"
	"fmt"
	"sort"
	"strings"
	"time"

	"github.com/oneconcern/datamon/pkg/model"
	"github.com/oneconcern/datamon/pkg/storage/localfs"
	"github.com/oneconcern/datamon/pkg/wal"
	"github.com/segmentio/ksuid"
	"github.com/spf13/afero"

	"verifsim/simkit"
)

func init() {
	cfg := simkit.Config{MinDelayMs: 1, MaxDelayMs: 700}
	Register(&Scenario{Prop: "C19", Name: "wal-tokens", Strict: true, Quick: 10, Thorough: 10, Cfg: cfg, Run: runC19})
	// one or two transient store errors (before the call lands, or after it landed) on the appenders' calls: an Add may
	// fail, but an Add that reports success has stored its payload unchanged under a unique, correctly ordered token
	Register(&Scenario{Prop: "C19", Name: "wal-tokens-store-errors", Strict: true, Quick: 3, Thorough: 4, Cfg: cfg, Run: func(rc *RunCtx) *simkit.Violation {
		c19Faulty = true
		defer func() { c19Faulty = false }()
		return runC19(rc)
	}})
	Register(&Scenario{Prop: "C19", Name: "known-list-entries-after-add", Strict: true, Quick: 1, Thorough: 1, Cfg: cfg, Run: runC19Entries})
}

var walPayloads = []string{"", "hello", "two\nlines\n", "token: notatoken\npayload: looks like yaml\n", "- a\n- b\n", "é unicode ✓", strings.Repeat("long payload ", 120), "{json: \"ish\"}", "trailing space ", "\ttab"}

var walExp time.Duration

// walExpiration asks a throw-away log (over an in-memory directory) for the token expiration the package is built with.
func walExpiration() time.Duration {
	if walExp == 0 {
		st := localfs.New(afero.NewMemMapFs())
		walExp = wal.New(st, st, wal.Logger(nopLog)).GetExpirationDuration()
	}
	return walExp
}

type walAdd struct {
	client  int
	payload string
	token   string
	invoke  time.Time
	ret     time.Time
	err     error
}

var c19Faulty bool

func runC19(rc *RunCtx) *simkit.Violation {
	const prop = "C19"
	w := rc.W
	t := w.W
	walB, mutB := w.Bucket("wal"), w.Bucket("mutable")
	nClients := t.Range(1, 4)
	results := make([][]*walAdd, nClients)
	var tasks []*simkit.Task
	for c := 0; c < nClients; c++ {
		c := c
		cl := w.Client(fmt.Sprintf("appender%d", c))
		n := t.Range(1, 4)
		payloads := make([]string, n)
		for i := range payloads {
			payloads[i] = walPayloads[t.Choose(len(walPayloads))]
			if t.Bool(1, 2) {
				payloads[i] += fmt.Sprintf(" #%d.%d", c, i)
			}
		}
		// short pauses (same / next second) and pauses that put the next append at the far edge of the look-back window
		// of a later listing (twice the token expiration: the previous entry is then just inside, on, or just outside it)
		edge := int((2 * walExpiration()) / time.Millisecond)
		pause := t.Pick(0, 0, 300, 1100, 2500, edge, edge, edge, edge+700)
		if pause == edge {
			pause -= t.Range(0, 12) * 500 // (an append takes a few calls of up to 700 ms each)
		}
		tasks = append(tasks, w.Go(cl, "append", func() (interface{}, error) {
			l := wal.New(cl.Store(mutB), cl.Store(walB), wal.Logger(nopLog))
			for i, p := range payloads {
				a := &walAdd{client: c, payload: p, invoke: time.Now()}
				a.token, a.err = l.Add(bg, p)
				a.ret = time.Now()
				results[c] = append(results[c], a)
				if a.err != nil && !c19Faulty {
					return nil, a.err
				}
				if i+1 < len(payloads) && pause > 0 {
					time.Sleep(time.Duration(pause) * time.Millisecond)
				}
			}
			return nil, nil
		}))
	}
	if c19Faulty {
		w.Faults = &simkit.FaultCfg{Err: 60, AckLost: 40, Budget: t.Range(1, 2), Eligible: func(c *simkit.Call) bool {
			return strings.HasPrefix(c.Client.Name, "appender")
		}}
	}
	// a reader listing while the appends are in flight, through ONE log value, often repeating the same (from, max):
	// each listing is a single store call, so its result must be the log as it was at some instant between the
	// listing's invocation and its return
	type liveList struct {
		from        string
		max         int
		invoke, ret int
		got         []string
		err         error
	}
	var lives []*liveList
	if t.Bool(2, 3) {
		lr := w.Client("live-reader")
		now := time.Now()
		nl := t.Range(2, 5)
		type plan struct {
			from  string
			max   int
			pause int
		}
		var plans []plan
		for j := 0; j < nl; j++ {
			if j > 0 && t.Bool(1, 2) {
				pl := plans[t.Choose(len(plans))]
				pl.pause = t.Pick(0, 200, 700, 1500)
				plans = append(plans, pl)
				continue
			}
			part := t.Bytes(16)
			k, _ := ksuid.FromParts(now.Add(2*walExpiration()+time.Duration(t.Range(-1, 3))*time.Second), part)
			plans = append(plans, plan{from: k.String(), max: t.Pick(1, 1, 2, 2, 3, 1000), pause: t.Pick(0, 200, 700, 1500)})
		}
		w.Go(lr, "live-list", func() (interface{}, error) {
			l := wal.New(lr.Store(w.Bucket("mutable-live")), lr.Store(walB), wal.Logger(nopLog))
			for _, pl := range plans {
				time.Sleep(time.Duration(pl.pause) * time.Millisecond)
				ll := &liveList{from: pl.from, max: pl.max, invoke: w.SeqNow()}
				ll.got, _, ll.err = l.ListTokens(bg, pl.from, pl.max)
				ll.ret = w.SeqNow()
				lives = append(lives, ll)
			}
			return nil, nil
		})
	}
	if v := w.Run(); v != nil {
		v.Property = prop
		return v
	}
	if len(lives) > 0 {
		type landed struct {
			key string
			seq int
		}
		var lands []landed
		for _, ev := range w.History {
			if ev.Bucket == walB.Name && ev.Landed && (ev.Op == simkit.OpPut || ev.Op == simkit.OpPutExcl) {
				lands = append(lands, landed{ev.Key, ev.Seq})
			}
		}
		for _, ll := range lives {
			if ll.err != nil {
				return Viol(prop, "list-failed", "ListTokens-live", ll.from, "ListTokens(%s, %d) during appends failed: %v", ll.from, ll.max, ll.err)
			}
			fk, _ := ksuid.Parse(ll.from)
			start, _ := ksuid.FromParts(fk.Time().Add(-2*walExpiration()), make([]byte, 16))
			wantAt := func(seq int) []string {
				var ks []string
				for _, l := range lands {
					if l.seq <= seq && l.key >= start.String() {
						ks = append(ks, l.key)
					}
				}
				sort.Strings(ks)
				if len(ks) > ll.max {
					ks = ks[:ll.max]
				}
				return ks
			}
			ok := false
			var last []string
			for e := ll.invoke - 1; e <= ll.ret+1 && !ok; e++ {
				last = wantAt(e)
				ok = strings.Join(last, ",") == strings.Join(ll.got, ",")
			}
			if !ok {
				return Viol(prop, "list-tokens-wrong", "ListTokens-live", ll.from, "ListTokens(from %s, max %d) issued while appends were in flight (events %d..%d) returned %v, which is the look-back window at no instant of that interval (at its end: %v)", ll.from, ll.max, ll.invoke, ll.ret, tails(ll.got), tails(last))
			}
			if len(ll.got) == ll.max {
				w.Probe("live-listing-full-page")
			}
		}
		w.Probe("live-listings")
	}
	var all []*walAdd
	for c, tk := range tasks {
		if pv := taskProblem(prop, tk, "wal.Add"); pv != nil {
			return pv
		}
		if tk.Err != nil {
			return Viol(prop, "add-failed", "Add", "", "a fault-free append failed: %v", tk.Err)
		}
		for _, a := range results[c] {
			if a.err != nil {
				if !fired(w) {
					return Viol(prop, "add-failed", "Add", "", "an append failed although no store call failed: %v", a.err)
				}
				w.Probe("add-failed-under-store-error")
				continue
			}
			all = append(all, a)
		}
	}
	w.Faults = nil
	if c19Faulty && fired(w) {
		w.Probe("nontrivial")
	}
	w.Note("%d appenders, %d appends", nClients, len(all))
	seen := map[string]*walAdd{}
	for _, a := range all {
		if _, err := ksuid.Parse(a.token); err != nil {
			return Viol(prop, "bad-token", "Add", a.token, "Add returned %q which is not a token: %v", a.token, err)
		}
		if o, dup := seen[a.token]; dup {
			return Viol(prop, "token-not-unique", "Add", a.token, "two appends (clients %d and %d) got the same token", o.client, a.client)
		}
		seen[a.token] = a
		o := walB.Peek(a.token)
		if o == nil {
			return Viol(prop, "entry-missing", "Add", a.token, "append acknowledged with token %s but nothing is stored under it", a.token)
		}
		if !bytes.Equal(o.Data, []byte(a.payload)) {
			return Viol(prop, "payload-changed", "Add", a.token, "the entry stored under %s holds %d bytes, the appended payload has %d", a.token, len(o.Data), len(a.payload))
		}
	}
	// ordering: an append that returned in an earlier second than another was invoked has the smaller token
	for _, a := range all {
		for _, b := range all {
			if a.ret.Unix() < b.invoke.Unix() && !(a.token < b.token) {
				return Viol(prop, "token-order", "Add", b.token, "token %s was issued at %s, after %s (issued by %s in an earlier second), but does not sort after it", b.token, b.invoke.Format("15:04:05.000"), a.token, a.ret.Format("15:04:05.000"))
			}
			if a.ret.Unix() < b.invoke.Unix() {
				w.Probe("cross-second-pair")
			}
		}
	}
	// listing tokens: from issued tokens and from synthetic ones, any max
	keys := walB.Keys()
	sort.Strings(keys)
	reader := w.Client("reader")
	rl := (*wal.WAL)(nil)
	rt, v := doOp(prop, w, reader, "wal-new", func() (interface{}, error) {
		return wal.New(reader.Store(w.Bucket("mutable-reader")), reader.Store(walB), wal.Logger(nopLog)), nil
	})
	if v != nil {
		return v
	}
	rl = rt.Result.(*wal.WAL)
	for i := 0; i < 3 && len(all) > 0; i++ {
		from := all[t.Choose(len(all))].token
		if mode := t.Choose(3); mode > 0 {
			// a synthetic token between / around the issued ones, or one whose look-back window starts in the very
			// second of an issued one
			k, _ := ksuid.Parse(from)
			if mode == 2 {
				k, _ = ksuid.FromParts(k.Time().Add(2*walExpiration()), make([]byte, 16))
			}
			// (its random part: lowest, highest, or anything: none of it may matter, a token stands for its second)
			part := make([]byte, 16)
			switch t.Choose(3) {
			case 1:
				part = bytes.Repeat([]byte{0xff}, 16)
			case 2:
				part = t.Bytes(16)
			}
			shift := t.Range(-3, 3)
			if mode == 2 {
				shift = t.Pick(0, 0, 0, -1, 1)
			}
			syn, _ := ksuid.FromParts(k.Time().Add(time.Duration(shift)*time.Second), part)
			from = syn.String()
		}
		max := t.Pick(1, 2, 3, 5, 1000)
		lt, v := doOp(prop, w, reader, "list-tokens", func() (interface{}, error) {
			toks, _, err := rl.ListTokens(bg, from, max)
			return toks, err
		})
		if v != nil {
			return v
		}
		if lt.Err != nil {
			return Viol(prop, "list-failed", "ListTokens", from, "ListTokens(%s, %d) failed: %v", from, max, lt.Err)
		}
		got := lt.Result.([]string)
		fk, _ := ksuid.Parse(from)
		start, _ := ksuid.FromParts(fk.Time().Add(-2*rl.GetExpirationDuration()), make([]byte, 16))
		var want []string
		for _, k := range keys {
			if k >= start.String() && len(want) < max {
				want = append(want, k)
			}
		}
		if len(want) > 0 {
			if wk, _ := ksuid.Parse(want[0]); wk.Time().Unix() == start.Time().Unix() {
				w.Probe("entry-in-first-second-of-window")
			}
		}
		if strings.Join(got, ",") != strings.Join(want, ",") {
			return Viol(prop, "list-tokens-wrong", "ListTokens", from, "ListTokens(from %s, max %d) returned %d tokens %v, the look-back window holds %v", from, max, len(got), tails(got), tails(want))
		}
	}
	if w.Stats.Concurrent > 0 {
		w.Probe("nontrivial")
	}
	return nil
}

func tails(ss []string) []string {
	out := make([]string, len(ss))
	for i, s := range ss {
		out[i] = tail4(s)
	}
	return out
}

// runC19Entries: append, then list entries from the returned token: the appended (token, payload) pairs must come back.
func runC19Entries(rc *RunCtx) *simkit.Violation {
	const prop = "C19"
	w := rc.W
	t := w.W
	walB, mutB := w.Bucket("wal"), w.Bucket("mutable")
	cl := w.Client("appender")
	// one append only: with two or more, every entry unmarshals to the same (empty) token and an internal goroutine of
	// ListEntries panics ("Received more than one response for token"), which kills the process (observed; DESIGN §8)
	n := 1
	_ = t
	var adds []*walAdd
	tk, v := doOp(prop, w, cl, "append+list", func() (interface{}, error) {
		l := wal.New(cl.Store(mutB), cl.Store(walB), wal.Logger(nopLog))
		for i := 0; i < n; i++ {
			a := &walAdd{payload: fmt.Sprintf("hello %d", i)}
			a.token, a.err = l.Add(bg, a.payload)
			if a.err != nil {
				return nil, a.err
			}
			adds = append(adds, a)
		}
		es, _, err := l.ListEntries(bg, adds[0].token, 100)
		return es, err
	})
	if v != nil {
		if v.Class == "deadlock" {
			v.Class, v.Discr = "entries-mismatch", "ListEntries-after-Add"
		}
		return v
	}
	if tk.Err != nil {
		return Viol(prop, "entries-mismatch", "ListEntries-after-Add", "", "ListEntries after %d successful appends failed: %v", n, tk.Err)
	}
	es := tk.Result.([]model.Entry)
	want := map[string]string{}
	for _, a := range adds {
		want[a.token] = a.payload
	}
	if len(es) != len(adds) {
		return Viol(prop, "entries-mismatch", "ListEntries-after-Add", "", "%d entries appended, ListEntries returns %d", len(adds), len(es))
	}
	for _, e := range es {
		if p, ok := want[e.Token]; !ok || p != e.Payload {
			return Viol(prop, "entries-mismatch", "ListEntries-after-Add", e.Token, "ListEntries returns (token %q, payload %q); appended: %v", e.Token, e.Payload, want)
		}
	}
	return nil
}

package props

import (
	"sort"
	"strings"
)

// panicSite extracts the innermost datamon function from a recovered stack: the
// discriminator of a panic violation (a call site, never typed by hand).
func panicSite(stack string) string {
	lines := strings.Split(stack, "\n")
	seenPanic := false
	for _, l := range lines {
		if strings.HasPrefix(l, "panic(") {
			seenPanic = true
			continue
		}
		if !seenPanic {
			continue
		}
		if strings.HasPrefix(l, "github.com/oneconcern/datamon/") {
			f := strings.TrimPrefix(l, "github.com/oneconcern/datamon/")
			if i := strings.LastIndex(f, "("); i > 0 {
				f = f[:i]
			}
			f = strings.TrimPrefix(f, "pkg/")
			// drop closure suffixes like .func1
			for strings.Contains(f, ".func") {
				i := strings.LastIndex(f, ".func")
				f = f[:i]
			}
			return f
		}
	}
	return "unknown-site"
}

func sortedKeys[M ~map[string]V, V any](m M) []string {
	out := make([]string, 0, len(m))
	for k := range m {
		out = append(out, k)
	}
	sort.Strings(out)
	return out
}

func min(a, b int) int {
	if a < b {
		return a
	}
	return b
}

func max(a, b int) int {
	if a > b {
		return a
	}
	return b
}

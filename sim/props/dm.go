package props

import (
	"bytes"
	"fmt"
	"os"
	"sort"
	"strings"

	context2 "github.com/oneconcern/datamon/pkg/context"
	"github.com/oneconcern/datamon/pkg/core"
	"github.com/oneconcern/datamon/pkg/model"
	"github.com/oneconcern/datamon/pkg/storage"
	"github.com/oneconcern/datamon/pkg/storage/localfs"
	"github.com/spf13/afero"

	"verifsim/simkit"
)

// DM is the datamon universe of one run: the five buckets of one context.
type DM struct {
	rc   *RunCtx
	w    *simkit.World
	Meta *simkit.Backend
	VMet *simkit.Backend
	Blob *simkit.Backend
	Wal  *simkit.Backend
	RLog *simkit.Backend
	// CRC selects whether handles expose PutCRC (as GCS does)
	CRC bool
	// VMetPlain: the label store is a plain storage.Store (no PutCRC, no versions), as a local-directory context's is
	VMetPlain bool
}

func newDM(rc *RunCtx) *DM {
	w := rc.W
	d := &DM{rc: rc, w: w, Meta: w.Bucket("meta"), VMet: w.Bucket("vmeta"), Blob: w.Bucket("blob"), Wal: w.Bucket("wal"), RLog: w.Bucket("rlog"), CRC: true}
	d.Meta.LineSetSum, d.VMet.LineSetSum = true, true
	return d
}

func (d *DM) wrap(h *simkit.Handle) storage.Store {
	if d.CRC {
		return h
	}
	return simkit.NoCRC{Store: h}
}

// Stores returns the context stores as seen by one client.
func (d *DM) Stores(c *simkit.Client) context2.Stores {
	if d.VMetPlain {
		return context2.NewStores(d.wrap(c.Store(d.Wal)), d.wrap(c.Store(d.RLog)), d.wrap(c.Store(d.Blob)), d.wrap(c.Store(d.Meta)), simkit.NoCRC{Store: c.Store(d.VMet)})
	}
	return context2.NewStores(d.wrap(c.Store(d.Wal)), d.wrap(c.Store(d.RLog)), d.wrap(c.Store(d.Blob)), d.wrap(c.Store(d.Meta)), c.Store(d.VMet))
}

// StoresTagged is Stores with a tag on every handle (to tell two tasks of one client apart).
func (d *DM) StoresTagged(c *simkit.Client, tag string) context2.Stores {
	return context2.NewStores(d.wrap(c.Store(d.Wal).Tagged(tag)), d.wrap(c.Store(d.RLog).Tagged(tag)), d.wrap(c.Store(d.Blob).Tagged(tag)), d.wrap(c.Store(d.Meta).Tagged(tag)), c.Store(d.VMet).Tagged(tag))
}

// memDisk is a private in-memory local disk in the shape datamon's own callers use.
func memDisk() afero.Fs {
	if osDiskRoot != "" {
		// real parallelism (race-stress mode): afero's MemMapFs file is not safe for concurrent WriteAt, a real file is
		osDiskSeq++
		dir := fmt.Sprintf("%s/disk%d", osDiskRoot, osDiskSeq)
		_ = os.MkdirAll(dir, 0o755)
		return afero.NewBasePathFs(afero.NewOsFs(), dir)
	}
	return afero.NewBasePathFs(afero.NewMemMapFs(), "/data")
}

var (
	osDiskRoot string
	osDiskSeq  int
)

func localStore(fs afero.Fs) storage.Store {
	return localfs.New(fs, localfs.WithLogger(nopLog), localfs.WithRetry(false))
}

// Tree is a set of files path -> content.
type Tree map[string][]byte

func (t Tree) paths() []string { return sortedKeys(t) }

func writeTree(fs afero.Fs, t Tree) error {
	for _, p := range t.paths() {
		if i := strings.LastIndex(p, "/"); i > 0 {
			if err := fs.MkdirAll(p[:i], 0o755); err != nil {
				return err
			}
		}
		if err := afero.WriteFile(fs, p, t[p], 0o644); err != nil {
			return err
		}
	}
	return nil
}

// readTree reads every regular file of a disk.
func readTree(fs afero.Fs) (Tree, error) {
	out := Tree{}
	err := afero.Walk(fs, ".", func(p string, info os.FileInfo, err error) error {
		if err != nil {
			if os.IsNotExist(err) && p == "." {
				return nil
			}
			return err
		}
		if info.IsDir() {
			return nil
		}
		b, err := afero.ReadFile(fs, p)
		if err != nil {
			return err
		}
		out[strings.TrimPrefix(p, "./")] = b
		return nil
	})
	return out, err
}

var hostileNames = []string{"a", "b", "file with spaces", "ünïcödé-名前", "..dots..", "-leading-dash", "true", "~", "1e3", "null", "x.yaml", "#hash", "a:b", "q'uote", "tab\there",
	"UPPER", "x.conflicts", ".datamonx", "very-long-name-" + strings.Repeat("z", 120), "0", "%41", "[brackets]", "star*", "back\\slash", "semi;colon", "eq=sign", "at@sign", "plus+", "comma,",
	" lead", "trail ", "trail", "nbsp\u00a0", "\u3000wide", "cr\r"}

var hostileDirs = []string{"d", "dir with space", "dir ", " dir", "ünï", "a/.datamon", "deep/er/and/deeper", "x.checkpoints", "-d", "true", "d.d", "conflicts", "a/.conflicts", "sub/.checkpoints"}

// drawTree draws n regular files (never a generated path) with sizes 0..3 leaves and duplicated contents.
func drawTree(t *simkit.Tape, n int, leaf uint32, salt string) Tree {
	L := int(leaf)
	tr := Tree{}
	var pool [][]byte
	for i := 0; len(tr) < n && i < n*3+10; i++ {
		name := hostileNames[t.Choose(len(hostileNames))]
		if n > len(hostileNames)/2 || t.Bool(1, 3) {
			name = fmt.Sprintf("%s%s%d", name, salt, i)
		}
		switch t.Choose(4) {
		case 0:
		case 1:
			name = hostileDirs[t.Choose(len(hostileDirs))] + "/" + name
		case 2:
			name = hostileDirs[t.Choose(len(hostileDirs))] + "/" + hostileDirs[t.Choose(len(hostileDirs))] + "/" + name
		default:
			name = fmt.Sprintf("d%d/%s", t.Choose(4), name)
		}
		if _, dup := tr[name]; dup || conflictsWithTree(tr, name) {
			continue
		}
		var c []byte
		if len(pool) > 0 && t.Bool(1, 4) {
			c = pool[t.Choose(len(pool))]
		} else {
			var sz int
			switch t.Choose(6) {
			case 0:
				sz = 0
			case 1:
				sz = t.Pick(L, 2*L, 3*L)
			case 2:
				sz = t.Pick(L-1, L+1, 2*L+1)
			default:
				sz = t.Range(1, 3*L)
			}
			if n > 100 {
				sz = sz % 97 // big trees: tiny files
			}
			c = t.Bytes(sz)
			pool = append(pool, c)
		}
		tr[name] = c
	}
	return tr
}

// conflictsWithTree tells whether name would be both a file and a directory prefix of another entry.
func conflictsWithTree(tr Tree, name string) bool {
	for p := range tr {
		if strings.HasPrefix(p, name+"/") || strings.HasPrefix(name, p+"/") {
			return true
		}
	}
	return false
}

// decoys are generated paths that must never be uploaded.
func drawDecoys(t *simkit.Tape, tr Tree) Tree {
	cands := []string{".datamon/x.yaml", ".datamon/sub/y", ".conflicts/s1/a", ".checkpoints/s1/a", ".conflicts", ".checkpoints/z"}
	out := Tree{}
	for _, c := range cands {
		if t.Bool(1, 3) && !conflictsWithTree(tr, c) && !conflictsWithTree(out, c) {
			out[c] = []byte("decoy " + c)
		}
	}
	return out
}

type uploadOpts struct {
	leaf        uint32
	concUp      int
	keys        []string // explicit key list (nil = whole tree)
	skipMissing bool
	message     string
	bundleID    string
}

// upload runs core.Upload (or UploadSpecificKeys) of a local tree as one operation of client c.
func (d *DM) upload(c *simkit.Client, stores context2.Stores, repo string, src afero.Fs, o uploadOpts) (*core.Bundle, func() (interface{}, error)) {
	bd := model.NewBundleDescriptor(model.Message(o.message))
	if o.leaf != 0 {
		bd.LeafSize = o.leaf
	}
	opts := []core.BundleOption{core.Repo(repo), core.ContextStores(stores), core.BundleDescriptor(bd), core.ConsumableStore(localStore(src)), core.Logger(nopLog), core.SkipMissing(o.skipMissing)}
	if o.concUp > 0 {
		opts = append(opts, core.ConcurrentFileUploads(o.concUp))
	}
	if o.bundleID != "" {
		opts = append(opts, core.BundleID(o.bundleID))
	}
	b := core.NewBundle(opts...)
	fn := func() (interface{}, error) {
		if o.keys != nil {
			keys := o.keys
			return b, core.UploadSpecificKeys(bg, b, func() ([]string, error) { return keys, nil })
		}
		return b, core.Upload(bg, b)
	}
	return b, fn
}

type downloadOpts struct {
	concDown, concList int
	pred               func(string) (bool, error)
	file               string
	metaOnly           bool
}

// downloadFn returns an operation that downloads bundle id of repo into dst.
func (d *DM) downloadFn(stores context2.Stores, repo, id string, dst afero.Fs, o downloadOpts) (*core.Bundle, func() (interface{}, error)) {
	opts := []core.BundleOption{core.Repo(repo), core.ContextStores(stores), core.BundleID(id), core.Logger(nopLog)}
	if !o.metaOnly || dst != nil {
		opts = append(opts, core.ConsumableStore(localStore(dst)))
	}
	if o.concDown > 0 {
		opts = append(opts, core.ConcurrentFileDownloads(o.concDown))
	}
	if o.concList > 0 {
		opts = append(opts, core.ConcurrentFilelistDownloads(o.concList))
	}
	b := core.NewBundle(opts...)
	return b, func() (interface{}, error) {
		switch {
		case o.metaOnly:
			return b, core.DownloadMetadata(bg, b)
		case o.file != "":
			return b, core.PublishFile(bg, b, o.file)
		case o.pred != nil:
			return b, core.PublishSelectBundleEntries(bg, b, o.pred)
		default:
			return b, core.Publish(bg, b)
		}
	}
}

// splitMeta separates .datamon/ metadata from data files of a downloaded disk.
func splitMeta(t Tree) (data Tree, meta Tree) {
	data, meta = Tree{}, Tree{}
	for p, c := range t {
		if strings.HasPrefix(p, ".datamon/") {
			meta[p] = c
		} else {
			data[p] = c
		}
	}
	return
}

// diffTrees describes the first difference between two trees ("" if equal).
func diffTrees(want, got Tree) string {
	for _, p := range want.paths() {
		g, ok := got[p]
		if !ok {
			return fmt.Sprintf("missing %q (%d bytes)", p, len(want[p]))
		}
		if !bytes.Equal(g, want[p]) {
			return fmt.Sprintf("content of %q differs (want %d bytes, got %d)", p, len(want[p]), len(g))
		}
	}
	for _, p := range got.paths() {
		if _, ok := want[p]; !ok {
			return fmt.Sprintf("unexpected %q (%d bytes)", p, len(got[p]))
		}
	}
	return ""
}

// doOp runs fn as a task of c to completion and turns scheduler violations / panics into violations.
func doOp(prop string, w *simkit.World, c *simkit.Client, name string, fn func() (interface{}, error)) (*simkit.Task, *simkit.Violation) {
	tk, v := w.Do(c, name, fn)
	if v != nil {
		if v.Property == "" {
			v.Property = prop
		}
		return tk, v
	}
	if pv := taskProblem(prop, tk, name); pv != nil {
		return tk, pv
	}
	return tk, nil
}

// entriesOf returns bundle entries sorted by name.
func entriesOf(b *core.Bundle) []model.BundleEntry {
	es := append([]model.BundleEntry(nil), b.GetBundleEntries()...)
	sort.Slice(es, func(i, j int) bool { return es[i].NameWithPath < es[j].NameWithPath })
	return es
}

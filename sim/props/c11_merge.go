package props

import (
	"fmt"
	"strings"

	"github.com/oneconcern/datamon/pkg/core"
	"github.com/oneconcern/datamon/pkg/model"
	"github.com/segmentio/ksuid"
	"gopkg.in/yaml.v2"

	"verifsim/simkit"
)

func init() {
	Register(&Scenario{Prop: "C11", Name: "merge", Strict: true, Quick: 10, Thorough: 10, Run: runC11})
	// every arrival order of the split file lists at the commit, enumerated (2..4 splits: 2, 6 or 24 orders)
	// one failed store call inside each commit: the commit may fail; one that reports success is still the merge of all splits
	Register(&Scenario{Prop: "C11", Name: "merge-one-store-error", Strict: false, Quick: 3, Thorough: 4, Run: func(rc *RunCtx) *simkit.Violation {
		c11StoreErr = true
		defer func() { c11StoreErr = false }()
		return runC11(rc)
	}})
	Register(&Scenario{Prop: "C11", Name: "merge-all-arrival-orders", Strict: true, Quick: 2, Thorough: 4, Run: func(rc *RunCtx) *simkit.Violation {
		c11AllOrders = true
		defer func() { c11AllOrders = false }()
		return runC11(rc)
	}})
}

// cloneDiamond copies every object of a diamond under a fresh diamond id (same splits, same entries, same
// upload stamps) so that the same input can be committed again, in another mode / arrival order.
func cloneDiamond(d *DM, repo, from string) string {
	to := ksuid.New().String()
	src := model.GetArchivePathPrefixToDiamonds(repo) + from + "/"
	for _, k := range d.VMet.KeysWithPrefix(src) {
		data := d.VMet.Peek(k).Data
		if strings.HasSuffix(k, "/diamond-running.yaml") {
			var dd model.DiamondDescriptor
			if err := yaml.Unmarshal(data, &dd); err == nil {
				dd.DiamondID = to
				data = mustYAML(dd)
			}
		}
		d.VMet.Seed(model.GetArchivePathPrefixToDiamonds(repo)+to+"/"+strings.TrimPrefix(k, src), data)
	}
	return to
}

var c11AllOrders bool

// c11StoreErr: one store call of each commit fails (most often the read of a split's file list)
var c11StoreErr bool

// permutations of 0..n-1 in lexicographic order.
func permutations(n int) [][]int {
	var out [][]int
	var rec func(cur []int, used []bool)
	rec = func(cur []int, used []bool) {
		if len(cur) == n {
			out = append(out, append([]int(nil), cur...))
			return
		}
		for i := 0; i < n; i++ {
			if !used[i] {
				used[i] = true
				rec(append(cur, i), used)
				used[i] = false
			}
		}
	}
	rec(nil, make([]bool, n))
	return out
}

func runC11(rc *RunCtx) *simkit.Violation {
	const prop = "C11"
	w := rc.W
	t := w.W
	defer drawCommitOpts(t)()
	d := newDM(rc)
	setup := w.Client("setup")
	if v := createRepo(prop, d, setup, "r1"); v != nil {
		return v
	}
	ct, v := doOp(prop, w, setup, "diamond-init", createDiamondFn(d.Stores(setup), "r1"))
	if v != nil {
		return v
	}
	if ct.Err != nil {
		return Viol(prop, "harness", "CreateDiamond", "", "%v", ct.Err)
	}
	did := ct.Result.(string)
	leaf := uint32(t.Pick(0, 0, 64, 1024)) // 0 = datamon's default leaf size, as the CLI always uses
	k := t.Pick(1, 1, 2, 2, 3, 3, 4, 5)
	if rc.Thorough() {
		k = t.Range(1, 8)
	}
	if c11AllOrders {
		k = t.Pick(2, 3, 3, 4)
	}
	alphabet := [][]byte{[]byte("content A"), []byte("content B is longer"), []byte("C")}
	shared := []string{"p0", "p1", "dir/p2", "dir/p3", "x y/p4", "p5"}
	trees := make([]Tree, k)
	for i := range trees {
		trees[i] = Tree{}
		for _, p := range shared {
			if t.Bool(1, 2) {
				trees[i][p] = alphabet[t.Choose(3)]
			}
		}
		if t.Bool(1, 2) || len(trees[i]) == 0 {
			trees[i][fmt.Sprintf("only-%d", i)] = []byte(fmt.Sprintf("only %d", i))
		}
	}
	// uploads: sequential (distinct upload times) with, sometimes, two of them concurrent
	var pending []*simkit.Task
	for i := 0; i < k; i++ {
		c := w.Client(fmt.Sprintf("split%d", i))
		src := memDisk()
		_ = writeTree(src, trees[i])
		tk := w.Go(c, fmt.Sprintf("split-add-%d", i), splitAddFn(d.Stores(c), "r1", did, "", src, t.Pick(1, 4, 100), leaf, nil))
		pending = append(pending, tk)
		if t.Bool(1, 4) && i+1 < k {
			continue // the next one runs concurrently with this one
		}
		if v := w.Run(); v != nil {
			v.Property = prop
			return v
		}
	}
	if v := w.Run(); v != nil {
		v.Property = prop
		return v
	}
	for _, tk := range pending {
		if pv := taskProblem(prop, tk, tk.Name); pv != nil {
			return pv
		}
		if tk.Err != nil {
			return Viol(prop, "split-failed", "split add", tk.Name, "fault-free split upload failed: %v", tk.Err)
		}
	}
	splits, err := readDoneSplits(d.VMet, "r1", did)
	if err != nil {
		return Viol(prop, "split-store-inconsistent", "split add", did, "%v", err)
	}
	if len(splits) != k {
		return Viol(prop, "split-not-done", "split add", did, "%d of %d splits have a done descriptor", len(splits), k)
	}
	w.Note("diamond with %d splits (leaf %d): %s", k, leaf, renderTrees(trees))
	if c11AllOrders {
		// one commit per arrival order of the k split file lists (each split has one), in a conflict-keeping mode and in
		// forbid mode: every order gives the merge the oracle computes, and the same bundle / the same refusal
		perms := permutations(k)
		conflict := hasRealConflict(splits)
		var first map[string]string
		for pi, perm := range perms {
			for _, mode := range []model.ConflictMode{model.EnableConflicts, model.ForbidConflicts} {
				id := cloneDiamond(d, "r1", did)
				next := 0
				w.Prefer = func(parked []*simkit.Call) int {
					if next >= len(perm) {
						return -1
					}
					want := "/splits/" + splits[perm[next]].ID + "/"
					for i, c := range parked {
						if c.Op == simkit.OpGet && strings.Contains(c.Key, want) && strings.Contains(c.Key, "bundle-files-") {
							next++
							return i
						}
					}
					for i, c := range parked { // let everything else go first: the wanted read has not been issued yet
						if !(c.Op == simkit.OpGet && strings.Contains(c.Key, "/splits/") && strings.Contains(c.Key, "bundle-files-")) {
							return i
						}
					}
					return -1
				}
				c := w.Client(fmt.Sprintf("commit-%d-%s", pi, mode))
				tk, v := doOp(prop, w, c, fmt.Sprintf("commit order %v %s", perm, mode), commitFn(d.Stores(c), "r1", id, mode, leaf, nil))
				w.Prefer = nil
				if v != nil {
					return v
				}
				if next != len(perm) {
					return Viol(prop, "harness", "arrival-order", id, "could not impose arrival order %v: %d of %d file-list reads were steered", perm, next, len(perm))
				}
				if mode == model.ForbidConflicts {
					if conflict && tk.Err == nil {
						return Viol(prop, "forbid-accepted-conflict", "Commit", string(mode), "two splits uploaded different contents for a path but the commit in forbid mode succeeded when the split file lists arrived in order %v", perm)
					}
					if !conflict && tk.Err != nil {
						return Viol(prop, "forbid-refused-without-conflict", "Commit", string(mode), "no two splits differ on a path but the commit in forbid mode failed (arrival order %v): %v", perm, tk.Err)
					}
					continue
				}
				if tk.Err != nil {
					return Viol(prop, "commit-failed", "Commit", string(mode), "fault-free commit failed (arrival order %v): %v", perm, tk.Err)
				}
				em, _, v := bundleEntryMap(prop, d, c, "r1", tk.Result.(commitRes).BundleID)
				if v != nil {
					return v
				}
				if cls, obj, msg := checkMerge(em, splits, mode); cls != "" {
					return Viol(prop, cls, string(mode), obj, "[arrival order %v of %d splits] %s", perm, k, msg)
				}
				if first == nil {
					first = em
				} else if fmt.Sprint(sortedPairs(first)) != fmt.Sprint(sortedPairs(em)) {
					return Viol(prop, "order-dependent", string(mode), "", "the bundle committed with arrival order %v differs from the one committed with order %v", perm, perms[0])
				}
			}
		}
		w.ProbeN("arrival-orders-enumerated", len(perms))
		w.Probe("nontrivial")
		return nil
	}
	modes := []model.ConflictMode{model.EnableConflicts, model.EnableConflicts, model.IgnoreConflicts, model.EnableCheckpoints, model.ForbidConflicts, model.EnableCheckpoints}
	ids := []string{did}
	for i := 1; i < len(modes); i++ {
		ids = append(ids, cloneDiamond(d, "r1", did))
	}
	conflict := hasRealConflict(splits)
	type outcome struct {
		entries map[string]string
		sizes   map[string]uint64
		desc    model.DiamondDescriptor
	}
	var outs []*outcome
	for i, mode := range modes {
		c := w.Client(fmt.Sprintf("commit%d", i))
		faultsBefore := 0
		if c11StoreErr {
			faultsBefore = w.Stats.Faults["F-ERR"]
			pl := &simkit.Planned{Client: c.Name, Kind: simkit.FErr, Any: true, Nth: t.Range(0, 40)}
			if t.Bool(2, 3) {
				nth, n := t.Range(0, 8), 0
				pl = &simkit.Planned{Client: c.Name, Kind: simkit.FErr, Match: func(cl *simkit.Call) bool {
					if cl.Op != simkit.OpGet || !strings.Contains(cl.Key, "/splits/") || !strings.Contains(cl.Key, "bundle-files-") {
						return false
					}
					n++
					return n-1 == nth
				}}
			}
			w.Faults = &simkit.FaultCfg{Plan: []*simkit.Planned{pl}}
		}
		tk, v := doOp(prop, w, c, fmt.Sprintf("commit-%d %s", i, mode), commitFn(d.Stores(c), "r1", ids[i], mode, leaf, nil))
		w.Faults = nil
		if v != nil && v.Class == "deadlock" && c11StoreErr && w.Stats.Faults["F-ERR"] > faultsBefore {
			// a commit that never returns after a store error has not produced a wrong merge: outside the statement of
			// C11 (recorded as an observation in DESIGN.md); the world is wedged, the run stops here
			w.Probe("hang-after-store-error")
			return nil
		}
		if v != nil {
			return v
		}
		if c11StoreErr && tk.Err != nil && w.Stats.Faults["F-ERR"] > faultsBefore {
			w.Probe("commit-failed-on-store-error")
			outs = append(outs, nil)
			continue
		}
		if c11StoreErr && w.Stats.Faults["F-ERR"] > faultsBefore {
			w.Probe("commit-succeeded-despite-store-error")
		}
		if mode == model.ForbidConflicts {
			if conflict && tk.Err == nil {
				return Viol(prop, "forbid-accepted-conflict", "Commit", string(mode), "two splits uploaded different contents for a path but the commit in forbid mode succeeded")
			}
			if !conflict && tk.Err != nil {
				return Viol(prop, "forbid-refused-without-conflict", "Commit", string(mode), "no two splits uploaded different contents for a path but the commit in forbid mode failed: %v", tk.Err)
			}
			if tk.Err != nil {
				w.Probe("forbid-refused")
				outs = append(outs, nil)
				continue
			}
		} else if tk.Err != nil {
			return Viol(prop, "commit-failed", "Commit", string(mode), "fault-free commit in mode %q failed: %v", mode, tk.Err)
		}
		res := tk.Result.(commitRes)
		em, sz, v := bundleEntryMap(prop, d, c, "r1", res.BundleID)
		if v != nil {
			return v
		}
		if cls, obj, msg := checkMerge(em, splits, mode); cls != "" {
			return Viol(prop, cls, string(mode), obj, "[mode %s, %d splits] %s", mode, k, msg)
		}
		// the flags recorded with the diamond
		var dd model.DiamondDescriptor
		if o := d.VMet.Peek(model.GetArchivePathToFinalDiamond("r1", ids[i])); o != nil {
			_ = yaml.Unmarshal(o.Data, &dd)
		} else {
			return Viol(prop, "diamond-not-done", "Commit", ids[i], "commit succeeded but the diamond has no final descriptor")
		}
		loser := false
		for p := range em {
			if strings.HasPrefix(p, ".conflicts/") || strings.HasPrefix(p, ".checkpoints/") {
				loser = true
			}
		}
		if dd.HasConflicts != (mode == model.EnableConflicts && loser) || dd.HasCheckpoints != (mode == model.EnableCheckpoints && loser) {
			return Viol(prop, "flags-inconsistent", "Commit", string(mode), "diamond records hasConflicts=%v hasCheckpoints=%v, the bundle %s side entries (mode %s)", dd.HasConflicts, dd.HasCheckpoints, map[bool]string{true: "has", false: "has no"}[loser], mode)
		}
		if loser {
			w.Probe("conflict-paths-created")
		}
		outs = append(outs, &outcome{entries: em, sizes: sz, desc: dd})
	}
	if w.Stats.Concurrent > 0 {
		w.Probe("nontrivial")
	}
	// order independence: same mode => identical bundles; main tree identical in every mode
	same := func(a, b map[string]string, mainOnly bool) string {
		for _, p := range sortedKeys(a) {
			if mainOnly && (strings.HasPrefix(p, ".conflicts/") || strings.HasPrefix(p, ".checkpoints/")) {
				continue
			}
			if b[p] != a[p] {
				return p
			}
		}
		return ""
	}
	pairs := [][2]int{{0, 1}, {3, 5}}
	for _, pr := range pairs {
		a, b := outs[pr[0]], outs[pr[1]]
		if a == nil || b == nil {
			continue
		}
		if p := same(a.entries, b.entries, false); p != "" {
			return Viol(prop, "order-dependent", string(modes[pr[0]]), p, "two commits of the same splits in mode %s differ at %q (%s vs %s): the result depends on the order in which split file lists arrive", modes[pr[0]], p, short(a.entries[p]), short(b.entries[p]))
		}
		if p := same(b.entries, a.entries, false); p != "" {
			return Viol(prop, "order-dependent", string(modes[pr[0]]), p, "two commits of the same splits in mode %s differ at %q (%s vs %s): the result depends on the order in which split file lists arrive", modes[pr[0]], p, short(b.entries[p]), short(a.entries[p]))
		}
	}
	var ref *outcome
	for i, o := range outs {
		if o == nil {
			continue
		}
		if ref == nil {
			ref = o
			continue
		}
		if p := same(ref.entries, o.entries, true); p != "" {
			return Viol(prop, "main-tree-mode-dependent", string(modes[i]), p, "the main tree differs between modes at %q", p)
		}
		if p := same(o.entries, ref.entries, true); p != "" {
			return Viol(prop, "main-tree-mode-dependent", string(modes[i]), p, "the main tree differs between modes at %q", p)
		}
	}
	// a single-split diamond yields the same bundle as a plain upload of the same files
	if k == 1 && outs[0] != nil {
		up := w.Client("plain")
		r := &mRepo{Name: "r1"}
		l := leaf
		if l == 0 {
			l = 2 << 20
		}
		mb, v := addBundle(prop, d, up, r, trees[0], l, 4)
		if v != nil {
			return v
		}
		em, sz, v := bundleEntryMap(prop, d, up, "r1", mb.ID)
		if v != nil {
			return v
		}
		o := outs[0]
		for _, p := range sortedKeys(em) {
			if o.entries[p] != em[p] || o.sizes[p] != sz[p] {
				return Viol(prop, "single-split-differs-from-upload", "Commit", p, "single-split diamond lists %q as %s/%d, a plain upload as %s/%d", p, short(o.entries[p]), o.sizes[p], short(em[p]), sz[p])
			}
		}
		if len(o.entries) != len(em) {
			return Viol(prop, "single-split-differs-from-upload", "Commit", "", "single-split diamond has %d entries, a plain upload %d", len(o.entries), len(em))
		}
		w.Probe("single-split-vs-upload")
	}
	return nil
}

func sortedPairs(m map[string]string) []string {
	var out []string
	for _, k := range sortedKeys(m) {
		out = append(out, k+"="+m[k])
	}
	return out
}

func short(s string) string {
	if len(s) > 8 {
		return s[:8]
	}
	if s == "" {
		return "<absent>"
	}
	return s
}

func renderTrees(ts []Tree) string {
	var out []string
	for i, tr := range ts {
		var fs []string
		for _, p := range tr.paths() {
			fs = append(fs, fmt.Sprintf("%s=%q", p, string(tr[p][:min(9, len(tr[p]))])))
		}
		out = append(out, fmt.Sprintf("split%d{%s}", i, strings.Join(fs, " ")))
	}
	return strings.Join(out, " ")
}

var _ = core.Upload

package refmodel

import (
	"time"

	"github.com/anishathalye/porcupine"
)

// RegOp is one operation on a label register.
type RegOp struct {
	Kind  string // set | get | del
	Value string // set: value written; get: value observed ("" = not found)
	OK    bool   // del: whether the delete reported success
}

// RegisterModel is a single register with delete.
var RegisterModel = porcupine.Model{
	Init: func() interface{} { return "" },
	Step: func(state, input, output interface{}) (bool, interface{}) {
		st := state.(string)
		in := input.(RegOp)
		out := output.(RegOp)
		switch in.Kind {
		case "set":
			return true, in.Value
		case "get":
			return out.Value == st, st
		case "del":
			if out.OK {
				return st != "", ""
			}
			return st == "", st
		}
		return false, st
	},
	Equal: func(a, b interface{}) bool { return a.(string) == b.(string) },
}

// CheckRegister runs porcupine over the history; it returns "ok", "illegal" or "unknown".
func CheckRegister(ops []porcupine.Operation) string {
	switch porcupine.CheckOperationsTimeout(RegisterModel, ops, 20*time.Second) {
	case porcupine.Ok:
		return "ok"
	case porcupine.Illegal:
		return "illegal"
	}
	return "unknown"
}

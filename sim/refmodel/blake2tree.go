// Package refmodel holds the small executable reference models used as oracles.
package refmodel

import (
	"encoding/binary"
	"encoding/hex"
	"math/bits"
)

// An independent BLAKE2b (RFC 7693) with the full parameter block, written for the
// harness so that keys can be checked without going through the library datamon uses.

var blakeIV = [8]uint64{
	0x6a09e667f3bcc908, 0xbb67ae8584caa73b, 0x3c6ef372fe94f82b, 0xa54ff53a5f1d36f1,
	0x510e527fade682d1, 0x9b05688c2b3e6c1f, 0x1f83d9abfb41bd6b, 0x5be0cd19137e2179,
}

var blakeSigma = [12][16]byte{
	{0, 1, 2, 3, 4, 5, 6, 7, 8, 9, 10, 11, 12, 13, 14, 15},
	{14, 10, 4, 8, 9, 15, 13, 6, 1, 12, 0, 2, 11, 7, 5, 3},
	{11, 8, 12, 0, 5, 2, 15, 13, 10, 14, 3, 6, 7, 1, 9, 4},
	{7, 9, 3, 1, 13, 12, 11, 14, 2, 6, 5, 10, 4, 0, 15, 8},
	{9, 0, 5, 7, 2, 4, 10, 15, 14, 1, 11, 12, 6, 8, 3, 13},
	{2, 12, 6, 10, 0, 11, 8, 3, 4, 13, 7, 5, 15, 14, 1, 9},
	{12, 5, 1, 15, 14, 13, 4, 10, 0, 7, 6, 3, 9, 2, 8, 11},
	{13, 11, 7, 14, 12, 1, 3, 9, 5, 0, 15, 4, 8, 6, 2, 10},
	{6, 15, 14, 9, 11, 3, 0, 8, 12, 2, 13, 7, 1, 4, 10, 5},
	{10, 2, 8, 4, 7, 6, 1, 5, 15, 11, 9, 14, 3, 12, 13, 0},
	{0, 1, 2, 3, 4, 5, 6, 7, 8, 9, 10, 11, 12, 13, 14, 15},
	{14, 10, 4, 8, 9, 15, 13, 6, 1, 12, 0, 2, 11, 7, 5, 3},
}

// BlakeParams is the tree part of the parameter block.
type BlakeParams struct {
	Fanout, Depth byte
	LeafLength    uint32
	NodeOffset    uint64
	NodeDepth     byte
	InnerLength   byte
	LastNode      bool
}

func blakeCompress(h *[8]uint64, block []byte, t uint64, last, lastNode bool) {
	var m [16]uint64
	for i := 0; i < 16; i++ {
		m[i] = binary.LittleEndian.Uint64(block[8*i:])
	}
	var v [16]uint64
	copy(v[:8], h[:])
	copy(v[8:], blakeIV[:])
	v[12] ^= t
	if last {
		v[14] = ^v[14]
		if lastNode {
			v[15] = ^v[15]
		}
	}
	g := func(a, b, c, d int, x, y uint64) {
		v[a] = v[a] + v[b] + x
		v[d] = bits.RotateLeft64(v[d]^v[a], -32)
		v[c] = v[c] + v[d]
		v[b] = bits.RotateLeft64(v[b]^v[c], -24)
		v[a] = v[a] + v[b] + y
		v[d] = bits.RotateLeft64(v[d]^v[a], -16)
		v[c] = v[c] + v[d]
		v[b] = bits.RotateLeft64(v[b]^v[c], -63)
	}
	for r := 0; r < 12; r++ {
		s := &blakeSigma[r]
		g(0, 4, 8, 12, m[s[0]], m[s[1]])
		g(1, 5, 9, 13, m[s[2]], m[s[3]])
		g(2, 6, 10, 14, m[s[4]], m[s[5]])
		g(3, 7, 11, 15, m[s[6]], m[s[7]])
		g(0, 5, 10, 15, m[s[8]], m[s[9]])
		g(1, 6, 11, 12, m[s[10]], m[s[11]])
		g(2, 7, 8, 13, m[s[12]], m[s[13]])
		g(3, 4, 9, 14, m[s[14]], m[s[15]])
	}
	for i := 0; i < 8; i++ {
		h[i] ^= v[i] ^ v[i+8]
	}
}

// Blake2b512 computes an unkeyed 64-byte BLAKE2b with tree parameters.
func Blake2b512(data []byte, p BlakeParams) [64]byte {
	var pb [64]byte
	pb[0] = 64
	pb[1] = 0
	pb[2] = p.Fanout
	pb[3] = p.Depth
	binary.LittleEndian.PutUint32(pb[4:], p.LeafLength)
	binary.LittleEndian.PutUint64(pb[8:], p.NodeOffset)
	pb[16] = p.NodeDepth
	pb[17] = p.InnerLength
	var h [8]uint64
	for i := 0; i < 8; i++ {
		h[i] = blakeIV[i] ^ binary.LittleEndian.Uint64(pb[8*i:])
	}
	var t uint64
	for len(data) > 128 {
		t += 128
		blakeCompress(&h, data[:128], t, false, false)
		data = data[128:]
	}
	var block [128]byte
	copy(block[:], data)
	t += uint64(len(data))
	blakeCompress(&h, block[:], t, true, p.LastNode)
	var out [64]byte
	for i := 0; i < 8; i++ {
		binary.LittleEndian.PutUint64(out[8*i:], h[i])
	}
	return out
}

// TreeKeys computes datamon's on-disk key layout for content at a leaf size:
// full leaves are hashed with node offsets 1..n (not flagged last), a trailing partial leaf
// with node offset n (= number of full leaves) flagged last; the root is the depth-1 node
// over the concatenated leaf hashes.
func TreeKeys(content []byte, leafSize uint32) (root [64]byte, leaves [][64]byte) {
	ls := int(leafSize)
	full := len(content) / ls
	for i := 0; i < full; i++ {
		leaves = append(leaves, Blake2b512(content[i*ls:(i+1)*ls], BlakeParams{Fanout: 0, Depth: 2, LeafLength: leafSize, NodeOffset: uint64(i + 1), NodeDepth: 0, InnerLength: 64}))
	}
	if rest := content[full*ls:]; len(rest) > 0 {
		leaves = append(leaves, Blake2b512(rest, BlakeParams{Fanout: 0, Depth: 2, LeafLength: leafSize, NodeOffset: uint64(full), NodeDepth: 0, InnerLength: 64, LastNode: true}))
	}
	cat := make([]byte, 0, 64*len(leaves))
	for _, l := range leaves {
		cat = append(cat, l[:]...)
	}
	root = Blake2b512(cat, BlakeParams{Fanout: 0, Depth: 2, LeafLength: leafSize, NodeOffset: 0, NodeDepth: 1, InnerLength: 64, LastNode: true})
	return root, leaves
}

// Hex renders a key.
func Hex(k [64]byte) string { return hex.EncodeToString(k[:]) }

// RootHex is the hex root key of content.
func RootHex(content []byte, leafSize uint32) string {
	r, _ := TreeKeys(content, leafSize)
	return Hex(r)
}

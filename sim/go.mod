module verifsim

go 1.26.8

require (
	github.com/anishathalye/porcupine v1.3.0
	github.com/jacobsa/fuse v0.0.0-20220531202254-21122235c77a
	github.com/oneconcern/datamon v0.0.0
	github.com/segmentio/ksuid v1.0.4
	github.com/spf13/afero v1.9.3
	go.uber.org/zap v1.24.0
	gopkg.in/yaml.v2 v2.4.0
)

require (
	github.com/DataDog/zstd v1.5.2 // indirect
	github.com/beorn7/perks v1.0.1 // indirect
	github.com/blang/semver v3.5.1+incompatible // indirect
	github.com/cenkalti/backoff/v4 v4.2.0 // indirect
	github.com/cespare/xxhash v1.1.0 // indirect
	github.com/cespare/xxhash/v2 v2.2.0 // indirect
	github.com/cockroachdb/errors v1.9.0 // indirect
	github.com/cockroachdb/logtags v0.0.0-20211118104740-dabe8e521a4f // indirect
	github.com/cockroachdb/pebble v0.0.0-20230104192001-3d9c6101a3a1 // indirect
	github.com/cockroachdb/redact v1.1.3 // indirect
	github.com/dgraph-io/badger/v3 v3.2103.5 // indirect
	github.com/dgraph-io/ristretto v0.1.1 // indirect
	github.com/docker/go-units v0.5.0 // indirect
	github.com/dustin/go-humanize v1.0.0 // indirect
	github.com/getsentry/sentry-go v0.16.0 // indirect
	github.com/gogo/protobuf v1.3.2 // indirect
	github.com/golang/glog v0.0.0-20160126235308-23def4e6c14b // indirect
	github.com/golang/groupcache v0.0.0-20210331224755-41bb18bfe9da // indirect
	github.com/golang/protobuf v1.5.2 // indirect
	github.com/golang/snappy v0.0.4 // indirect
	github.com/google/flatbuffers v22.9.30-0.20221019131441-5792623df42e+incompatible // indirect
	github.com/hashicorp/go-immutable-radix v1.3.1 // indirect
	github.com/hashicorp/golang-lru v0.6.0 // indirect
	github.com/influxdata/influxdb v1.11.0 // indirect
	github.com/klauspost/compress v1.15.14 // indirect
	github.com/kr/pretty v0.3.1 // indirect
	github.com/kr/text v0.2.0 // indirect
	github.com/matttproud/golang_protobuf_extensions v1.0.4 // indirect
	github.com/minio/blake2b-simd v0.0.0-20160723061019-3f5f724cb5b1 // indirect
	github.com/opentracing/opentracing-go v1.2.0 // indirect
	github.com/pkg/errors v0.9.1 // indirect
	github.com/prometheus/client_golang v1.14.0 // indirect
	github.com/prometheus/client_model v0.3.0 // indirect
	github.com/prometheus/common v0.39.0 // indirect
	github.com/prometheus/procfs v0.9.0 // indirect
	github.com/rogpeppe/go-internal v1.9.0 // indirect
	go.opencensus.io v0.24.0 // indirect
	go.uber.org/atomic v1.10.0 // indirect
	go.uber.org/multierr v1.8.0 // indirect
	golang.org/x/exp v0.0.0-20230105000112-eab7a2c85304 // indirect
	golang.org/x/net v0.4.0 // indirect
	golang.org/x/sync v0.1.0 // indirect
	golang.org/x/sys v0.4.0 // indirect
	golang.org/x/text v0.6.0 // indirect
	google.golang.org/protobuf v1.28.1 // indirect
)

replace github.com/oneconcern/datamon => /repo

replace github.com/spf13/pflag => github.com/fredbi/pflag v1.0.6-0.20201106154427-e6824c13371a

package simkit

// Kind is a fault kind.
type Kind int

// Fault kinds (DESIGN §3.5).
const (
	FNone Kind = iota
	FErr
	FAckLost
	FCrashB
	FCrashA
	FTorn
	FStall
	// FReset: a read whose body breaks midway: the Get succeeds, its reader delivers a prefix of the object (cut chosen by the
	// tape) and then a transient error instead of EOF. On any other call it is F-ERR.
	FReset
)

var kindNames = [...]string{"none", "F-ERR", "F-ACKLOST", "F-CRASH-B", "F-CRASH-A", "F-TORN", "F-STALL", "F-RESET"}

func (k Kind) String() string { return kindNames[k] }

// Planned is a fault placed at an exact point: the n-th write (or n-th call) of a client.
type Planned struct {
	Client string
	Nth    int  // 0-based index among that client's writes (or calls when AnyCall)
	Any    bool // count all calls, not only writes
	Kind   Kind
	// Match, when set, replaces the Nth rule: the fault fires on the first call of the client it accepts
	Match func(c *Call) bool
	// Times > 1 (with Match): the fault fires on the first Times calls Match accepts (a short outage hitting one object)
	Times int
	count int
	fired bool
}

// FaultCfg is the per-phase fault configuration. Rates are per 1000 eligible calls.
type FaultCfg struct {
	Err, AckLost, Torn, Stall, Crash int
	Budget                           int // max number of random faults still allowed (faults stop at 0)
	// Reset: rate of F-RESET on eligible Get calls
	Reset int
	// Eligible restricts random faults (nil = every call). Planned faults ignore it.
	Eligible func(c *Call) bool
	Plan     []*Planned
}

// decideFault draws the fault decision for the chosen call. Exactly the draws needed are
// consumed; with all rates at zero nothing is drawn.
func (w *World) decideFault(c *Call) Kind {
	f := w.Faults
	if f == nil || c.NoFault {
		return FNone
	}
	for _, p := range f.Plan {
		if p.fired || p.Client != c.Client.Name {
			continue
		}
		if p.Match != nil {
			if p.Match(c) {
				p.count++
				if p.count >= p.Times {
					p.fired = true
				}
				return p.Kind
			}
			continue
		}
		idx := c.Client.Writes
		ok := c.Op.IsWrite()
		if p.Any {
			idx, ok = c.Client.Calls, true
		}
		if ok && idx == p.Nth {
			p.fired = true
			return p.Kind
		}
	}
	if f.Budget <= 0 {
		return FNone
	}
	if f.Eligible != nil && !f.Eligible(c) {
		return FNone
	}
	isW := c.Op.IsWrite()
	k := FNone
	switch {
	case f.Err > 0 && w.S.Bool(f.Err, 1000):
		k = FErr
	case isW && f.AckLost > 0 && w.S.Bool(f.AckLost, 1000):
		k = FAckLost
	case (c.Op == OpPut || c.Op == OpPutExcl || c.Op == OpFsWrite) && f.Torn > 0 && w.S.Bool(f.Torn, 1000):
		k = FTorn
	case f.Stall > 0 && w.S.Bool(f.Stall, 1000):
		k = FStall
	case f.Reset > 0 && (c.Op == OpGet || c.Op == OpGetVersion) && w.S.Bool(f.Reset, 1000):
		k = FReset
	case isW && f.Crash > 0 && w.S.Bool(f.Crash, 1000):
		if w.S.Bool(1, 2) {
			k = FCrashA
		} else {
			k = FCrashB
		}
	}
	if k != FNone {
		f.Budget--
	}
	return k
}

package simkit

import (
	"bytes"
	"io"
	"os"
	"syscall"
	"crypto/sha256"
	"encoding/hex"
	"fmt"
	"hash"
	"hash/fnv"
	"runtime/debug"
	"sort"
	"strings"
	"sync"
	"sync/atomic"
	"testing"
	"testing/synctest"
	"time"
)

// Violation is what a scenario (or the scheduler) reports.
type Violation struct {
	Property string `json:"property"`
	Class    string `json:"class"`
	Discr    string `json:"discriminator"`
	Object   string `json:"object,omitempty"`
	Message  string `json:"message"`
	Stack    string `json:"stack,omitempty"`
}

func (v *Violation) Error() string {
	return fmt.Sprintf("%s/%s/%s %s: %s", v.Property, v.Class, v.Discr, v.Object, v.Message)
}

// Ident is what known-findings are matched on.
func (v *Violation) Ident() string { return v.Property + "/" + v.Class + "/" + v.Discr }

// Op is a store operation kind.
type Op int

// Store operations.
const (
	OpHas Op = iota
	OpGet
	OpGetAt
	OpGetAttr
	OpTouch
	OpPut
	OpPutExcl
	OpDelete
	OpKeys
	OpKeysPrefix
	OpKeyVersions
	OpGetVersion
	// disk operations (simfs)
	OpFsOpen
	OpFsCreateExcl
	OpFsCreate
	OpFsRead
	OpFsWrite
	OpFsClose
	OpFsSync
	OpFsRemove
	OpFsRename
	OpFsMkdir
	OpFsStat
	OpFsOther
)

var opNames = [...]string{"Has", "Get", "GetAt", "GetAttr", "Touch", "Put", "PutExcl", "Delete", "Keys", "KeysPrefix", "KeyVersions", "GetVersion",
	"fsOpen", "fsCreateExcl", "fsCreate", "fsRead", "fsWrite", "fsClose", "fsSync", "fsRemove", "fsRename", "fsMkdir", "fsStat", "fsOther"}

func (o Op) String() string { return opNames[o] }

// IsWrite tells whether the op mutates the store (a crash point).
func (o Op) IsWrite() bool {
	switch o {
	case OpTouch, OpPut, OpPutExcl, OpDelete, OpFsCreateExcl, OpFsCreate, OpFsWrite, OpFsRemove, OpFsRename, OpFsMkdir:
		return true
	}
	return false
}

// Client is one simulated OS process.
type Client struct {
	Name    string
	Dead    bool
	DeadAt  int // event seq at which it died
	Held    bool // one of its calls is frozen (World.Hold): its tasks do not count as outstanding
	Writes  int // number of write calls applied or attempted (crash-point index)
	Calls   int
	w       *World
	handles map[string]*Handle
}

// Event is one applied store/disk call.
type Event struct {
	Seq     int
	T       time.Duration
	Client  string
	Tag     string
	Bucket  string
	Op      Op
	Key     string
	Outcome string // ok | notfound | exists | fault:<kind> | ...
	Fault   Kind
	Landed  bool // for writes: the effect is in the store
	Size    int
	Sum     uint64
	NParked int // how many calls were parked when this one was chosen
	Choice  int
	// for invariants: the bytes written (Put) – not rendered
	Data []byte
	Call *Call
}

// Render is the canonical one-line form, part of the event hash.
func (e *Event) Render() string {
	return fmt.Sprintf("%d t=%d %s%s %s %s %s -> %s n=%d h=%x [%d/%d]", e.Seq, int64(e.T/time.Microsecond), e.Client, tagStr(e.Tag), e.Bucket, e.Op, e.Key, e.Outcome, e.Size, e.Sum, e.Choice, e.NParked)
}

func tagStr(t string) string {
	if t == "" {
		return ""
	}
	return "#" + t
}

// Task is one client-level operation running on its own goroutine.
type Task struct {
	Name      string
	Client    *Client
	Done      bool
	Err       error
	Panic     interface{}
	Stack     string
	InvokeSeq int
	ReturnSeq int
	Result    interface{}
	index     int
}

// Stats are per-run counters.
type Stats struct {
	Events     int
	Steps      int
	MaxParked  int
	Concurrent int            // steps with >= 2 parked calls
	Faults     map[string]int // fired
	Probes     map[string]int
	IdleSleeps int
	TieGroups  int // steps that released more than one indistinguishable call
}

// Config of a world.
type Config struct {
	StepCap    int
	IdleCap    time.Duration // simulated idle time with nothing parked before declaring deadlock
	MinDelayMs int
	MaxDelayMs int
	Immediate  bool // scheduler off: calls are applied at once (race-stress mode)
	Yields     bool // park goroutines at the in-memory yield points compiled into datamon with -tags verif
	KeepEvents int  // how many events to keep in History (0 = all)
}

// World is one simulated universe: one run.
type World struct {
	T   *testing.T
	W   *Tape // workload tape
	S   *Tape // schedule / fault tape
	Cfg Config

	// Prefer, when set, is asked at every step which of the parked calls (one representative per group of
	// indistinguishable calls, in canonical order) to release; a negative answer leaves the choice to the tape.
	Prefer func(parked []*Call) int

	mu      sync.Mutex
	frozen  bool
	hold    func(*Call) bool // calls it accepts are frozen when they arrive (see Hold)
	held    []*Call
	yielder   *Client
	yieldDisk *Disk
	parked  []*Call
	regSeq  int
	live    int
	tasks   []*Task
	Buckets map[string]*Backend
	bucketL []*Backend
	Clients map[string]*Client
	clientL []*Client
	Disks   []*Disk

	History   []*Event
	hash      hash.Hash
	Seq       int
	Start     time.Time
	Stats     Stats
	Faults    *FaultCfg
	onEvent   []func(*Event) *Violation
	violation *Violation
	Progress  *atomic.Int64
	Notes     []string // free-form rendering of the workload (for samples)

	// OnTaskPanic turns a recovered panic of a task goroutine into a violation at once (the
	// state it leaves behind, e.g. a buffer left pinned, can wedge everything else).
	OnTaskPanic func(*Task) *Violation

	debugParked string
}

// DebugParked adds the parked set to every rendered event (debugging aid).
var DebugParked bool

func trunc(s string, n int) string {
	if len(s) > n {
		return s[:n]
	}
	return s
}

// NewWorld must be called inside a synctest bubble.
func NewWorld(t *testing.T, wt, st *Tape, cfg Config) *World {
	if cfg.StepCap == 0 {
		cfg.StepCap = 200000
	}
	if cfg.IdleCap == 0 {
		cfg.IdleCap = 12 * time.Hour
	}
	if cfg.MinDelayMs == 0 {
		cfg.MinDelayMs = 1
	}
	if cfg.MaxDelayMs == 0 {
		cfg.MaxDelayMs = 40
	}
	w := &World{T: t, W: wt, S: st, Cfg: cfg,
		Buckets: map[string]*Backend{}, Clients: map[string]*Client{},
		hash: sha256.New(), Progress: &atomic.Int64{}}
	w.Stats.Faults = map[string]int{}
	w.Stats.Probes = map[string]int{}
	if cfg.Yields {
		w.yielder = w.Client("~yield")
		w.yieldDisk = &Disk{Label: "~yield", w: w, c: w.yielder, Scheduled: true}
	}
	return w
}

// current is the world of the run in progress (one at a time per worker process): the yield hook compiled into
// datamon has no other way to find it.
var current atomic.Pointer[World]

// SetCurrent makes w the world the yield hook reports to (nil: none).
func SetCurrent(w *World) { current.Store(w) }

// YieldHook is installed as datamon's SimYield hook (build tag verif): an in-memory scheduling point.
func YieldHook(site string) {
	if w := current.Load(); w != nil {
		w.Yield(site)
	}
}

// Yield parks the calling goroutine like a store call that has no effect, so that the scheduler can let other
// goroutines run between two purely in-memory steps (only in runs that ask for it: every yield is one more event).
func (w *World) Yield(site string) {
	if w.Cfg.Immediate || !w.Cfg.Yields {
		return
	}
	if w.yielder == nil {
		return
	}
	w.mu.Lock()
	c, dk := w.yielder, w.yieldDisk
	w.Stats.Probes["yield:"+site]++
	w.mu.Unlock()
	w.submit(&Call{Client: c, Disk: dk, Op: OpFsOther, Key: "yield:" + site, NoFault: true, fsApply: func() result { return result{} }})
}

// SetEpoch advances the bubble clock to a plausible production instant.
func (w *World) SetEpoch(offsetSeconds int) {
	target := time.Date(2024, 3, 1, 0, 0, 0, 0, time.UTC).Add(time.Duration(offsetSeconds) * time.Second)
	if d := time.Until(target); d > 0 {
		time.Sleep(d)
	}
	w.Start = time.Now()
}

// Note appends a line to the rendered workload.
func (w *World) Note(format string, a ...interface{}) {
	w.mu.Lock()
	if len(w.Notes) < 400 {
		w.Notes = append(w.Notes, fmt.Sprintf(format, a...))
	}
	w.mu.Unlock()
}

// CountersSnapshot copies the fault and probe counters under the lock (tasks of a run that already failed may still be
// counting while the run is being recorded).
func (w *World) CountersSnapshot() (faults, probes map[string]int) {
	w.mu.Lock()
	defer w.mu.Unlock()
	faults, probes = map[string]int{}, map[string]int{}
	for k, v := range w.Stats.Faults {
		faults[k] = v
	}
	for k, v := range w.Stats.Probes {
		probes[k] = v
	}
	return
}

// Probe counts a "this rare condition was reached" event.
func (w *World) Probe(name string) {
	w.mu.Lock()
	w.Stats.Probes[name]++
	w.mu.Unlock()
}

// ProbeN adds n.
func (w *World) ProbeN(name string, n int) {
	w.mu.Lock()
	w.Stats.Probes[name] += n
	w.mu.Unlock()
}

// Bucket returns (creating it) the named backend.
func (w *World) Bucket(name string) *Backend {
	if b, ok := w.Buckets[name]; ok {
		return b
	}
	b := newBackend(name, w)
	w.Buckets[name] = b
	w.bucketL = append(w.bucketL, b)
	return b
}

// Client returns (creating it) the named client.
func (w *World) Client(name string) *Client {
	if c, ok := w.Clients[name]; ok {
		return c
	}
	c := &Client{Name: name, w: w, handles: map[string]*Handle{}}
	w.Clients[name] = c
	w.clientL = append(w.clientL, c)
	return c
}

// OnEvent registers a per-event invariant.
func (w *World) OnEvent(f func(*Event) *Violation) { w.onEvent = append(w.onEvent, f) }

// ClearInvariants removes all per-event invariants.
func (w *World) ClearInvariants() { w.onEvent = nil }

// Fail records the first violation (callable from anywhere).
func (w *World) Fail(v *Violation) {
	w.mu.Lock()
	if w.violation == nil {
		w.violation = v
	}
	w.mu.Unlock()
}

// Violation returns the recorded violation, if any.
func (w *World) Violation() *Violation {
	w.mu.Lock()
	defer w.mu.Unlock()
	return w.violation
}

// Go starts a client-level operation on its own goroutine (inside the bubble) and lets it
// run to its first store call before returning.
func (w *World) Go(c *Client, name string, fn func() (interface{}, error)) *Task {
	t := &Task{Name: name, Client: c}
	w.mu.Lock()
	w.live++
	t.index = len(w.tasks)
	w.tasks = append(w.tasks, t)
	t.InvokeSeq = w.Seq
	w.mu.Unlock()
	go func() {
		defer func() {
			if r := recover(); r != nil {
				t.Panic = r
				t.Stack = string(debug.Stack())
				if w.OnTaskPanic != nil {
					if v := w.OnTaskPanic(t); v != nil {
						w.Fail(v)
					}
				}
			}
			w.mu.Lock()
			t.Done = true
			t.ReturnSeq = w.Seq
			w.live--
			w.mu.Unlock()
		}()
		// run through a per-task trampoline: the call-path signature of every store call made on this
		// goroutine then differs from that of the other tasks (no accidental tie groups between tasks)
		t.Result, t.Err = trampolines[t.index%len(trampolines)](fn)
	}()
	if !w.Cfg.Immediate {
		synctest.Wait()
	}
	return t
}

// Do runs one operation to completion under the scheduler.
func (w *World) Do(c *Client, name string, fn func() (interface{}, error)) (*Task, *Violation) {
	t := w.Go(c, name, fn)
	v := w.Run()
	return t, v
}

func (w *World) liveTasks() int {
	w.mu.Lock()
	defer w.mu.Unlock()
	n := 0
	for _, t := range w.tasks {
		if !t.Done && !t.Client.Dead && !t.Client.Held {
			n++
		}
	}
	return n
}

// Hold freezes, from now on, every arriving call that match accepts: the call is not offered to the scheduler and its
// client counts as absent (Run returns without it) until ReleaseHeld. It models an operation that stays in flight -
// a slow uploader stuck before its last write - while other operations start and finish.
func (w *World) Hold(match func(*Call) bool) {
	w.mu.Lock()
	w.hold = match
	w.mu.Unlock()
}

// ReleaseHeld stops holding and offers the frozen calls to the scheduler again.
func (w *World) ReleaseHeld() int {
	w.mu.Lock()
	defer w.mu.Unlock()
	w.hold = nil
	n := len(w.held)
	for _, c := range w.held {
		c.Client.Held = false
		w.parked = append(w.parked, c)
	}
	w.held = nil
	return n
}

// AnyParked tells whether a call accepted by match is waiting for the scheduler (usable from a Planned.Match: "fail this
// write while that other write of the same operation is in flight").
func (w *World) AnyParked(match func(*Call) bool) bool {
	w.mu.Lock()
	defer w.mu.Unlock()
	for _, c := range w.parked {
		if match(c) {
			return true
		}
	}
	return false
}

// HeldCalls is the number of calls currently frozen.
func (w *World) HeldCalls() int {
	w.mu.Lock()
	defer w.mu.Unlock()
	return len(w.held)
}

func (w *World) outstanding() string {
	w.mu.Lock()
	defer w.mu.Unlock()
	var s []string
	for _, t := range w.tasks {
		if !t.Done && !t.Client.Dead {
			s = append(s, t.Client.Name+":"+t.Name)
		}
	}
	sort.Strings(s)
	return strings.Join(s, ",")
}

var idleSteps = []time.Duration{time.Millisecond, 10 * time.Millisecond, 100 * time.Millisecond, time.Second, 5 * time.Second, 30 * time.Second, time.Minute, 5 * time.Minute}

// Run is the scheduler loop: it returns when every task of every live client has returned
// (nil), or with the first violation.
func (w *World) Run() *Violation {
	if w.Cfg.Immediate {
		return w.runImmediate()
	}
	idle := 0
	var idleTotal time.Duration
	for {
		synctest.Wait()
		w.Progress.Add(1)
		if v := w.Violation(); v != nil {
			return v
		}
		if w.liveTasks() == 0 {
			return nil
		}
		w.mu.Lock()
		n := len(w.parked)
		w.mu.Unlock()
		if n == 0 {
			d := idleSteps[len(idleSteps)-1]
			if idle < len(idleSteps) {
				d = idleSteps[idle]
			}
			idle++
			idleTotal += d
			if idleTotal > w.Cfg.IdleCap {
				return &Violation{Class: "deadlock", Discr: "no-call-parked", Object: w.outstanding(),
					Message: fmt.Sprintf("operations outstanding (%s) but no store call parked and no timer fired for %v of simulated time", w.outstanding(), idleTotal)}
			}
			w.Stats.IdleSleeps++
			time.Sleep(d)
			continue
		}
		idle, idleTotal = 0, 0
		w.Stats.Steps++
		if w.Stats.Steps > w.Cfg.StepCap {
			return &Violation{Class: "step-cap", Discr: "scheduler", Object: w.outstanding(),
				Message: fmt.Sprintf("step cap %d reached with operations outstanding: %s", w.Cfg.StepCap, w.outstanding())}
		}
		w.mu.Lock()
		sort.SliceStable(w.parked, func(i, j int) bool {
			if w.parked[i].sortKey != w.parked[j].sortKey {
				return w.parked[i].sortKey < w.parked[j].sortKey
			}
			return w.parked[i].reg < w.parked[j].reg
		})
		// Calls that are indistinguishable (same client, tag, bucket, op, key, payload and call
		// path) form one group and are released together: which goroutine registered first is
		// not decided by the simulator, so it must not matter.
		var starts []int
		for i := range w.parked {
			if i == 0 || w.parked[i].sortKey != w.parked[i-1].sortKey {
				starts = append(starts, i)
			}
		}
		np := len(starts)
		if DebugParked {
			var ks []string
			for _, p := range w.parked {
				ks = append(ks, p.Op.String()+":"+trunc(p.renderKey(), 10))
			}
			w.debugParked = strings.Join(ks, " ")
		}
		var reps []*Call
		if w.Prefer != nil {
			for _, st := range starts {
				reps = append(reps, w.parked[st])
			}
		}
		w.mu.Unlock()
		gi := -1
		if w.Prefer != nil {
			// a scenario that enumerates orders itself (instead of sampling them from the tape) names the call to release
			if gi = w.Prefer(reps); gi >= np {
				gi = -1
			}
		}
		if gi < 0 {
			gi = w.S.Choose(np)
		}
		w.mu.Lock()
		lo := starts[gi]
		hi := len(w.parked)
		if gi+1 < np {
			hi = starts[gi+1]
		}
		group := append([]*Call(nil), w.parked[lo:hi]...)
		w.parked = append(w.parked[:lo], w.parked[hi:]...)
		w.mu.Unlock()
		if np > w.Stats.MaxParked {
			w.Stats.MaxParked = np
		}
		if np >= 2 {
			w.Stats.Concurrent++
		}
		if len(group) > 1 {
			w.Stats.TieGroups++
		}
		for mi, c := range group {
			// the fault decision is taken per call (a planned crash counts every write of the client)
			f := w.decideFault(c)
			if mi == 0 || f == FStall {
				dt := time.Duration(w.S.Range(w.Cfg.MinDelayMs, w.Cfg.MaxDelayMs)) * time.Millisecond
				if f == FStall {
					dt = time.Duration(w.S.Pick(61, 301, 3601, 7200)) * time.Second
				}
				time.Sleep(dt)
				synctest.Wait()
			}
			res := w.apply(c, f, gi, np)
			c.wake <- res
			if mi+1 < len(group) {
				// let this member run to its next blocking point before the next one is released: members of
				// a tie group must not race each other in memory
				synctest.Wait()
			}
		}
	}
}

func (w *World) runImmediate() *Violation {
	// real parallelism: wait on the real clock of the bubble-less world
	for {
		if v := w.Violation(); v != nil {
			return v
		}
		w.mu.Lock()
		live := w.live
		w.mu.Unlock()
		if live == 0 {
			return nil
		}
		time.Sleep(200 * time.Microsecond)
	}
}

// apply performs the call's effect atomically, records the event and runs invariants.
func (w *World) apply(c *Call, f Kind, choice, nparked int) result {
	w.mu.Lock()
	defer w.mu.Unlock()
	return w.applyLocked(c, f, choice, nparked)
}

func (w *World) applyLocked(c *Call, f Kind, choice, nparked int) result {
	cl := c.Client
	var res result
	landed := false
	if cl.Dead {
		res = result{err: ErrClientDead}
		return res
	}
	cl.Calls++
	if c.Op.IsWrite() {
		cl.Writes++
	}
	if c.lazy != nil {
		// the upload reads its payload now (see lazyPayload)
		if fresh, err := io.ReadAll(c.lazy); err == nil {
			if !bytes.Equal(fresh, c.Data) {
				w.Stats.Probes["put-payload-changed-in-flight"]++ // (w.mu is held)
			}
			if fresh == nil {
				fresh = []byte{}
			}
			c.Data = fresh
		}
		c.lazy = nil
	}
	switch f {
	case FErr:
		res = result{err: fmt.Errorf("sim: transient error on %s %s: %w", c.Op, c.Key, ErrTransient)}
		if c.Disk != nil {
			res = result{err: &os.PathError{Op: c.Op.String(), Path: c.Key, Err: syscall.EIO}}
		}
	case FReset:
		if c.Op != OpGet && c.Op != OpGetVersion {
			res = result{err: fmt.Errorf("sim: transient error on %s %s: %w", c.Op, c.Key, ErrTransient)}
			break
		}
		if res = c.target().apply(c); res.err == nil {
			res.reset, res.cut = true, 0
			if len(res.data) > 1 {
				res.cut = 1 + w.S.Choose(len(res.data)-1) // at least one byte is delivered (nothing delivered is F-ERR)
			}
		}
	case FCrashB:
		cl.Dead, cl.DeadAt = true, w.Seq
		res = result{err: ErrClientDead}
	case FTorn:
		res = c.target().applyTorn(c, w.S)
		landed = true
		if c.Disk == nil {
			res.err = fmt.Errorf("sim: connection reset while writing %s: %w", c.Key, ErrTransient)
		}
	default:
		res = c.target().apply(c)
		landed = res.err == nil && c.Op.IsWrite()
		if f == FAckLost && res.err == nil {
			res = result{err: fmt.Errorf("sim: timeout waiting for acknowledgement of %s %s: %w", c.Op, c.Key, ErrTransient)}
		}
		if f == FCrashA {
			cl.Dead, cl.DeadAt = true, w.Seq
			res = result{err: ErrClientDead}
		}
	}
	if f != FNone {
		w.Stats.Faults[f.String()]++
	}
	if cl.Dead {
		w.flushDeadLocked(cl)
	}
	ev := &Event{Seq: w.Seq, T: time.Since(w.Start), Client: cl.Name, Tag: c.Tag, Bucket: c.bucketName(), Op: c.Op, Key: c.renderKey(),
		Fault: f, Landed: landed, Size: len(c.Data), NParked: nparked, Choice: choice, Data: c.Data, Call: c}
	if c.Data != nil {
		ev.Sum = payloadSum(c, c.Data)
	} else if res.data != nil {
		ev.Sum = payloadSum(c, res.data)
		ev.Size = len(res.data)
	} else if res.keys != nil {
		ev.Size = len(res.keys)
	}
	ev.Outcome = outcomeOf(res, f)
	if DebugParked {
		ev.Outcome += " {" + w.debugParked + "}"
	}
	w.Seq++
	w.Stats.Events++
	w.hash.Write([]byte(ev.Render()))
	w.hash.Write([]byte{'\n'})
	if w.Cfg.KeepEvents == 0 || len(w.History) < w.Cfg.KeepEvents {
		w.History = append(w.History, ev)
	} else {
		copy(w.History, w.History[1:])
		w.History[len(w.History)-1] = ev
	}
	if w.violation == nil {
		for _, inv := range w.onEvent {
			if v := inv(ev); v != nil {
				w.violation = v
				break
			}
		}
	}
	return res
}

// SeqNow is the number of events applied so far (safe from any goroutine).
func (w *World) SeqNow() int {
	w.mu.Lock()
	defer w.mu.Unlock()
	return w.Seq
}

// EventHash is the hash of the rendered event log so far.
func (w *World) EventHash() string {
	w.mu.Lock()
	defer w.mu.Unlock()
	return hex.EncodeToString(w.hash.Sum(nil))
}

// Freeze ends the run: calls arriving from now on (goroutines the scenario left behind, which keep running in the
// unscheduled mode B) fail without touching the world, so that its counters, log and hashes can be read.
func (w *World) Freeze() {
	w.mu.Lock()
	w.frozen = true
	w.mu.Unlock()
}

// Tail renders the last n events.
func (w *World) Tail(n int) []string {
	h := w.History
	if len(h) > n {
		h = h[len(h)-n:]
	}
	out := make([]string, len(h))
	for i, e := range h {
		out[i] = e.Render()
	}
	return out
}

// SimTime is the simulated time elapsed since SetEpoch.
func (w *World) SimTime() time.Duration { return time.Since(w.Start) }

// Kill marks a client dead (a crash between two of its calls).
func (w *World) Kill(c *Client) {
	w.mu.Lock()
	c.Dead, c.DeadAt = true, w.Seq
	w.flushDeadLocked(c)
	w.mu.Unlock()
}

// calls already parked by a dead client are answered with an error, no effect
func (w *World) flushDeadLocked(c *Client) {
	var keep []*Call
	for _, p := range w.parked {
		if p.Client == c {
			p.wake <- result{err: ErrClientDead}
		} else {
			keep = append(keep, p)
		}
	}
	w.parked = keep
}

// Tasks returns the tasks started so far.
func (w *World) Tasks() []*Task { return w.tasks }

// StateHash hashes the content of every bucket (key, size, content hash).
func (w *World) StateHash() string {
	h := sha256.New()
	for _, b := range w.bucketL {
		fmt.Fprintf(h, "[%s]\n", b.Name)
		for _, k := range b.sortedKeys() {
			o := b.objs[k]
			f := fnv.New64a()
			f.Write(o.Data)
			fmt.Fprintf(h, "%s %d %x\n", k, len(o.Data), f.Sum64())
		}
	}
	return hex.EncodeToString(h.Sum(nil))[:16]
}

// payloadSum is the rendered checksum of written/read payloads. For buckets flagged LineSetSum
// it is insensitive to line order (a multiset-of-lines sum): index files list entries in
// completion order, which is not decided by the simulator when indistinguishable calls are
// released together.
func payloadSum(c *Call, data []byte) uint64 {
	if c.Bucket != nil && c.Bucket.LineSetSum {
		var sum uint64
		for _, ln := range bytes.Split(data, []byte{'\n'}) {
			h := fnv.New64a()
			h.Write(ln)
			sum += h.Sum64()
		}
		return sum
	}
	h := fnv.New64a()
	h.Write(data)
	return h.Sum64()
}

type taskFn = func() (interface{}, error)

//go:noinline
func tramp0(f taskFn) (interface{}, error) { return f() }

//go:noinline
func tramp1(f taskFn) (interface{}, error) { return f() }

//go:noinline
func tramp2(f taskFn) (interface{}, error) { return f() }

//go:noinline
func tramp3(f taskFn) (interface{}, error) { return f() }

//go:noinline
func tramp4(f taskFn) (interface{}, error) { return f() }

//go:noinline
func tramp5(f taskFn) (interface{}, error) { return f() }

//go:noinline
func tramp6(f taskFn) (interface{}, error) { return f() }

//go:noinline
func tramp7(f taskFn) (interface{}, error) { return f() }

//go:noinline
func tramp8(f taskFn) (interface{}, error) { return f() }

//go:noinline
func tramp9(f taskFn) (interface{}, error) { return f() }

//go:noinline
func tramp10(f taskFn) (interface{}, error) { return f() }

//go:noinline
func tramp11(f taskFn) (interface{}, error) { return f() }

//go:noinline
func tramp12(f taskFn) (interface{}, error) { return f() }

//go:noinline
func tramp13(f taskFn) (interface{}, error) { return f() }

//go:noinline
func tramp14(f taskFn) (interface{}, error) { return f() }

//go:noinline
func tramp15(f taskFn) (interface{}, error) { return f() }

var trampolines = []func(taskFn) (interface{}, error){tramp0, tramp1, tramp2, tramp3, tramp4, tramp5, tramp6, tramp7, tramp8, tramp9, tramp10, tramp11, tramp12, tramp13, tramp14, tramp15}

package simkit

import (
	"bytes"
	"context"
	"errors"
	"fmt"
	"hash/crc32"
	"hash/fnv"
	"io"
	"runtime"
	"sort"
	"strconv"
	"strings"
	"sync"
	"time"

	"github.com/oneconcern/datamon/pkg/storage"
	storagestatus "github.com/oneconcern/datamon/pkg/storage/status"
)

// Errors returned by the simulated store.
var (
	ErrTransient  = errors.New("sim: transient store failure")
	ErrClientDead = errors.New("sim: client process is dead")
)

var castagnoli = crc32.MakeTable(crc32.Castagnoli)

// Object is one stored object.
type Object struct {
	Data     []byte
	Created  time.Time
	Updated  time.Time
	Gen      int
	Versions []Version // oldest first, only when the bucket is versioned
}

// Version is one archived generation of an object.
type Version struct {
	Gen  int
	Data []byte
}

// Backend is one bucket, shared by all clients.
type Backend struct {
	Name      string
	w         *World
	objs      map[string]*Object
	sorted    []string
	dirty     bool
	gen       int
	Versioned bool
	// DeleteMissingOK selects the S3/localfs flavour (Delete of a missing key succeeds)
	DeleteMissingOK bool
	// ShortPages makes KeysPrefix return fewer keys than asked, with a non-empty next (legal for GCS)
	ShortPages int // 0 = off; else max page = max(1, count/ShortPages)
	// LineSetSum makes the rendered checksum of written payloads insensitive to line order
	LineSetSum bool
}

func newBackend(name string, w *World) *Backend {
	return &Backend{Name: name, w: w, objs: map[string]*Object{}}
}

func (b *Backend) sortedKeys() []string {
	if b.dirty || b.sorted == nil {
		b.sorted = b.sorted[:0]
		for k := range b.objs {
			b.sorted = append(b.sorted, k)
		}
		sort.Strings(b.sorted)
		b.dirty = false
	}
	return b.sorted
}

// --- direct (un-scheduled) access for oracles and seeding; call only from the root goroutine
// while the world is quiescent.

// Keys returns all keys, sorted.
func (b *Backend) Keys() []string { return append([]string(nil), b.sortedKeys()...) }

// KeysWithPrefix returns all keys with that prefix, sorted.
func (b *Backend) KeysWithPrefix(p string) []string {
	var out []string
	for _, k := range b.sortedKeys() {
		if strings.HasPrefix(k, p) {
			out = append(out, k)
		}
	}
	return out
}

// Peek returns the object (nil if missing).
func (b *Backend) Peek(k string) *Object { return b.objs[k] }

// Len is the number of objects.
func (b *Backend) Len() int { return len(b.objs) }

// Seed stores an object directly.
func (b *Backend) Seed(k string, data []byte) {
	now := time.Now()
	b.gen++
	if _, ok := b.objs[k]; !ok {
		b.dirty = true
	}
	b.objs[k] = &Object{Data: append([]byte(nil), data...), Created: now, Updated: now, Gen: b.gen}
}

// Damage replaces the bytes of an object at rest (F-ROT); nil deletes it.
func (b *Backend) Damage(k string, data []byte) {
	if data == nil {
		delete(b.objs, k)
		b.dirty = true
		return
	}
	if o, ok := b.objs[k]; ok {
		o.Data = append([]byte(nil), data...)
		return
	}
	b.Seed(k, data)
}

// Snapshot copies key -> bytes.
func (b *Backend) Snapshot() map[string][]byte {
	m := make(map[string][]byte, len(b.objs))
	for k, o := range b.objs {
		m[k] = o.Data
	}
	return m
}

// --- calls

// Call is one parked store or disk call.
type Call struct {
	reg     int
	Client  *Client
	Tag     string
	Bucket  *Backend
	Disk    *Disk
	Op      Op
	Key     string
	Data    []byte
	lazy    *bytes.Reader // payload still to be read when the call lands (see lazyPayload)
	NoFault bool          // never a fault point (in-memory yield points)
	CRC     uint32
	HasCRC  bool
	Token   string
	Prefix  string
	Delim   string
	Count   int
	Version string
	fsApply func() result
	fsTorn  func(*Tape) result
	sortKey string
	wake    chan result
}

type result struct {
	data []byte
	attr storage.Attributes
	keys []string
	next string
	ok   bool
	err  error
	n    int
	any  interface{}
	// F-RESET: the body breaks after cut bytes
	reset bool
	cut   int
}

type target interface {
	apply(c *Call) result
	applyTorn(c *Call, t *Tape) result
}

func (c *Call) target() target {
	if c.Disk != nil {
		return c.Disk
	}
	return c.Bucket
}

func (c *Call) bucketName() string {
	if c.Disk != nil {
		return c.Disk.Label
	}
	return c.Bucket.Name
}

func (c *Call) renderKey() string {
	switch c.Op {
	case OpKeysPrefix:
		return fmt.Sprintf("%q from %q delim %q count %d", c.Prefix, c.Token, c.Delim, c.Count)
	case OpGetVersion:
		return c.Key + "@" + c.Version
	}
	return c.Key
}

func outcomeOf(r result, f Kind) string {
	s := "ok"
	switch {
	case r.err == nil:
	case errors.Is(r.err, ErrClientDead):
		s = "dead"
	case errors.Is(r.err, storagestatus.ErrNotExists):
		s = "notfound"
	case strings.Contains(r.err.Error(), "Error 412"):
		s = "exists"
	default:
		s = "error"
	}
	if f != FNone {
		s += " fault:" + f.String()
	}
	return s
}

func errNotExists(k string) error {
	return storagestatus.ErrNotExists.Wrap(fmt.Errorf("storage: object doesn't exist: %s", k))
}

func (b *Backend) apply(c *Call) result {
	now := time.Now()
	switch c.Op {
	case OpHas:
		_, ok := b.objs[c.Key]
		return result{ok: ok}
	case OpGet, OpGetAt:
		o, ok := b.objs[c.Key]
		if !ok {
			return result{err: errNotExists(c.Key)}
		}
		return result{data: o.Data}
	case OpGetAttr:
		o, ok := b.objs[c.Key]
		if !ok {
			return result{err: errNotExists(c.Key)}
		}
		return result{attr: storage.Attributes{Created: o.Created, Updated: o.Updated, Size: int64(len(o.Data)), CRC32C: crc32.Checksum(o.Data, castagnoli)}}
	case OpTouch:
		o, ok := b.objs[c.Key]
		if !ok {
			return result{err: errNotExists(c.Key)}
		}
		o.Updated = now
		return result{}
	case OpPut, OpPutExcl:
		old, exists := b.objs[c.Key]
		if exists && c.Op == OpPutExcl {
			return result{err: fmt.Errorf("googleapi: Error 412: Precondition Failed, conditionNotMet (%s)", c.Key)}
		}
		if c.HasCRC && crc32.Checksum(c.Data, castagnoli) != c.CRC {
			return result{err: fmt.Errorf("googleapi: Error 400: provided CRC32C does not match computed for %s", c.Key)}
		}
		b.gen++
		o := &Object{Data: c.Data, Created: now, Updated: now, Gen: b.gen}
		if exists && b.Versioned {
			o.Versions = append(old.Versions, Version{Gen: old.Gen, Data: old.Data})
		}
		if !exists {
			b.dirty = true
		}
		b.objs[c.Key] = o
		return result{}
	case OpDelete:
		if _, ok := b.objs[c.Key]; !ok {
			if b.DeleteMissingOK {
				return result{}
			}
			return result{err: errNotExists(c.Key)}
		}
		delete(b.objs, c.Key)
		b.dirty = true
		return result{}
	case OpKeys:
		return result{keys: append([]string{}, b.sortedKeys()...)}
	case OpKeysPrefix:
		return b.keysPrefix(c)
	case OpKeyVersions:
		o, ok := b.objs[c.Key]
		if !ok {
			return result{err: errNotExists(c.Key)}
		}
		var vs []string
		for _, v := range o.Versions {
			vs = append(vs, strconv.Itoa(v.Gen))
		}
		vs = append(vs, strconv.Itoa(o.Gen))
		return result{keys: vs}
	case OpGetVersion:
		o, ok := b.objs[c.Key]
		if !ok {
			return result{err: errNotExists(c.Key)}
		}
		if strconv.Itoa(o.Gen) == c.Version {
			return result{data: o.Data}
		}
		for _, v := range o.Versions {
			if strconv.Itoa(v.Gen) == c.Version {
				return result{data: v.Data}
			}
		}
		return result{err: errNotExists(c.Key + "@" + c.Version)}
	}
	return result{err: fmt.Errorf("sim: unsupported op %v", c.Op)}
}

// applyTorn: the Put leaves an empty or truncated object.
func (b *Backend) applyTorn(c *Call, t *Tape) result {
	if c.Op != OpPut && c.Op != OpPutExcl {
		return b.apply(c)
	}
	n := 0
	if len(c.Data) > 1 && t.Bool(1, 2) {
		n = t.Range(1, len(c.Data)-1)
	}
	now := time.Now()
	b.gen++
	if _, ok := b.objs[c.Key]; !ok {
		b.dirty = true
	}
	b.objs[c.Key] = &Object{Data: append([]byte(nil), c.Data[:n]...), Created: now, Updated: now, Gen: b.gen}
	return result{}
}

// keysPrefix implements the GCS listing contract: lexicographic order, exact prefix,
// delimiter roll-up, at most count items, next = first item of the next page.
func (b *Backend) keysPrefix(c *Call) result {
	all := b.sortedKeys()
	start := sort.SearchStrings(all, c.Prefix)
	items := make([]string, 0, 16)
	limit := c.Count
	if limit <= 0 {
		limit = 1000
	}
	if b.ShortPages > 1 {
		limit = limit / b.ShortPages
		if limit < 1 {
			limit = 1
		}
	}
	last := ""
	next := ""
	for i := start; i < len(all); i++ {
		k := all[i]
		if !strings.HasPrefix(k, c.Prefix) {
			break
		}
		item := k
		if c.Delim != "" {
			if j := strings.Index(k[len(c.Prefix):], c.Delim); j >= 0 {
				item = k[:len(c.Prefix)+j+len(c.Delim)]
			}
		}
		if item == last {
			continue
		}
		last = item
		if c.Token != "" && item < c.Token {
			continue
		}
		if len(items) == limit {
			next = item
			break
		}
		items = append(items, item)
	}
	return result{keys: items, next: next}
}

// --- handles

// Handle is one client's connection to one bucket. It implements storage.Store,
// storage.StoreCRC and storage.VersionedStore.
type Handle struct {
	c *Client
	b *Backend
	// Tag distinguishes tasks of one client in the canonical order of parked calls.
	Tag string
	// ReadStyle: 0 bytes.Reader (WriterTo available), 1 chunked (n,nil)...(0,EOF), 2 chunked with
	// (n,EOF) on the last chunk, 3 one byte at a time.
	ReadStyle int
	ReadChunk int
}

// Store returns the client's handle on a bucket.
func (c *Client) Store(b *Backend) *Handle {
	if h, ok := c.handles[b.Name]; ok {
		return h
	}
	h := &Handle{c: c, b: b}
	c.handles[b.Name] = h
	return h
}

// Tagged returns a copy of the handle with a tag.
func (h *Handle) Tagged(tag string) *Handle {
	cp := *h
	cp.Tag = tag
	return &cp
}

// NoCRC hides PutCRC and versioning (a plain storage.Store).
type NoCRC struct{ storage.Store }

func (h *Handle) String() string { return "sim://" + h.b.Name }

func (h *Handle) call(c *Call) result {
	w := h.c.w
	c.Client, c.Tag, c.Bucket = h.c, h.Tag, h.b
	return w.submit(c)
}

func (w *World) submit(c *Call) result {
	if w.Cfg.Immediate {
		w.mu.Lock()
		defer w.mu.Unlock()
		if c.Client.Dead || w.frozen {
			return result{err: ErrClientDead}
		}
		return w.applyLocked(c, FNone, 0, 1)
	}
	w.mu.Lock()
	if c.Client.Dead {
		w.mu.Unlock()
		return result{err: ErrClientDead}
	}
	c.reg = w.regSeq
	w.regSeq++
	c.wake = make(chan result, 1)
	c.sortKey = c.Client.Name + "\x00" + c.Tag + "\x00" + c.bucketName() + "\x00" + c.Op.String() + "\x00" + c.renderKey() + "\x00" + strconv.Itoa(len(c.Data)) + "\x00" + payloadSig(c) + "\x00" + callPath()
	if w.hold != nil && w.hold(c) {
		c.Client.Held = true
		w.held = append(w.held, c)
	} else {
		w.parked = append(w.parked, c)
	}
	w.mu.Unlock()
	return <-c.wake
}

// Has implements storage.Store.
func (h *Handle) Has(_ context.Context, k string) (bool, error) {
	r := h.call(&Call{Op: OpHas, Key: k})
	return r.ok, r.err
}

// Get implements storage.Store.
func (h *Handle) Get(_ context.Context, k string) (io.ReadCloser, error) {
	r := h.call(&Call{Op: OpGet, Key: k})
	if r.err != nil {
		return nil, r.err
	}
	if r.reset {
		return &brokenReader{inner: h.reader(r.data[:r.cut]), key: k}, nil
	}
	return h.reader(r.data), nil
}

// brokenReader delivers what its inner reader holds, then a transient error instead of EOF (F-RESET).
type brokenReader struct {
	inner io.ReadCloser
	key   string
}

func (b *brokenReader) Read(p []byte) (int, error) {
	n, err := b.inner.Read(p)
	if err == io.EOF {
		err = fmt.Errorf("sim: connection reset while reading %s: %w", b.key, ErrTransient)
	}
	return n, err
}

func (b *brokenReader) Close() error { return b.inner.Close() }

func (h *Handle) reader(data []byte) io.ReadCloser {
	cp := append([]byte(nil), data...)
	if h.ReadStyle == 0 {
		return io.NopCloser(bytes.NewReader(cp))
	}
	chunk := h.ReadChunk
	if chunk <= 0 {
		chunk = 1 << 30
	}
	if h.ReadStyle == 3 {
		chunk = 1
	}
	return &styledReader{b: cp, chunk: chunk, eofWithData: h.ReadStyle == 2}
}

type styledReader struct {
	b           []byte
	chunk       int
	eofWithData bool
}

func (s *styledReader) Read(p []byte) (int, error) {
	if len(s.b) == 0 {
		return 0, io.EOF
	}
	if len(p) > s.chunk {
		p = p[:s.chunk]
	}
	n := copy(p, s.b)
	s.b = s.b[n:]
	if len(s.b) == 0 && s.eofWithData {
		return n, io.EOF
	}
	return n, nil
}
func (s *styledReader) Close() error { return nil }

// GetAttr implements storage.Store.
func (h *Handle) GetAttr(_ context.Context, k string) (storage.Attributes, error) {
	r := h.call(&Call{Op: OpGetAttr, Key: k})
	return r.attr, r.err
}

// GetAt implements storage.Store.
func (h *Handle) GetAt(_ context.Context, k string) (io.ReaderAt, error) {
	r := h.call(&Call{Op: OpGetAt, Key: k})
	if r.err != nil {
		return nil, r.err
	}
	return bytes.NewReader(append([]byte(nil), r.data...)), nil
}

// Touch implements storage.Store.
func (h *Handle) Touch(_ context.Context, k string) error {
	return h.call(&Call{Op: OpTouch, Key: k}).err
}

// Put implements storage.Store. The reader is drained before the call is parked.
// lazyPayload: an upload streams its payload while it is in flight. When the caller hands over an in-memory
// *bytes.Reader the bytes are looked at when the call is registered (for the canonical order of parked calls) but
// taken for good only when the scheduler lets the call land: a caller that recycles the buffer behind the reader
// before Put has returned stores the recycled bytes, as it would against a real object store.
func lazyPayload(r io.Reader) ([]byte, *bytes.Reader, error) {
	if br, ok := r.(*bytes.Reader); ok {
		snap := make([]byte, br.Len())
		if _, err := br.ReadAt(snap, br.Size()-int64(br.Len())); err != nil && err != io.EOF {
			return nil, nil, err
		}
		return snap, br, nil
	}
	data, err := io.ReadAll(r)
	if data == nil {
		data = []byte{}
	}
	return data, nil, err
}

func (h *Handle) Put(_ context.Context, k string, r io.Reader, noOverwrite bool) error {
	data, lazy, err := lazyPayload(r)
	if err != nil {
		return err
	}
	op := OpPut
	if noOverwrite {
		op = OpPutExcl
	}
	return h.call(&Call{Op: op, Key: k, Data: data, lazy: lazy}).err
}

// PutCRC implements storage.StoreCRC.
func (h *Handle) PutCRC(_ context.Context, k string, r io.Reader, noOverwrite bool, crc uint32) error {
	data, lazy, err := lazyPayload(r)
	if err != nil {
		return err
	}
	op := OpPut
	if noOverwrite {
		op = OpPutExcl
	}
	return h.call(&Call{Op: op, Key: k, Data: data, CRC: crc, HasCRC: true, lazy: lazy}).err
}

// Delete implements storage.Store.
func (h *Handle) Delete(_ context.Context, k string) error {
	return h.call(&Call{Op: OpDelete, Key: k}).err
}

// Clear implements storage.Store (not part of any scenario).
func (h *Handle) Clear(context.Context) error { return storagestatus.ErrNotImplemented }

// Keys implements storage.Store.
func (h *Handle) Keys(_ context.Context) ([]string, error) {
	r := h.call(&Call{Op: OpKeys})
	return r.keys, r.err
}

// KeysPrefix implements storage.Store.
func (h *Handle) KeysPrefix(_ context.Context, token, prefix, delim string, count int) ([]string, string, error) {
	r := h.call(&Call{Op: OpKeysPrefix, Token: token, Prefix: prefix, Delim: delim, Count: count})
	if r.err != nil {
		return nil, "", r.err
	}
	return r.keys, r.next, nil
}

// IsVersioned implements storage.VersionedStore.
func (h *Handle) IsVersioned(context.Context) (bool, error) { return h.b.Versioned, nil }

// KeyVersions implements storage.VersionedStore.
func (h *Handle) KeyVersions(_ context.Context, k string) ([]string, error) {
	r := h.call(&Call{Op: OpKeyVersions, Key: k})
	return r.keys, r.err
}

// GetVersion implements storage.VersionedStore.
func (h *Handle) GetVersion(_ context.Context, k, version string) (io.ReadCloser, error) {
	r := h.call(&Call{Op: OpGetVersion, Key: k, Version: version})
	if r.err != nil {
		return nil, r.err
	}
	if r.reset {
		return &brokenReader{inner: h.reader(r.data[:r.cut]), key: k}, nil
	}
	return h.reader(r.data), nil
}

// callPath is a signature of the calling goroutine's stack (function names only): it
// separates e.g. a cafs prefetcher from a direct reader issuing the same Get.
var callPathCache sync.Map

func callPath() string {
	var pcs [32]uintptr
	n := runtime.Callers(4, pcs[:])
	key := pcs
	if v, ok := callPathCache.Load(key); ok {
		return v.(string)
	}
	var b strings.Builder
	frames := runtime.CallersFrames(pcs[:n])
	for {
		fr, more := frames.Next()
		fn := fr.Function
		if fn != "" && !strings.HasPrefix(fn, "runtime.") && !strings.HasPrefix(fn, "testing.") {
			if i := strings.LastIndex(fn, "/"); i >= 0 {
				fn = fn[i+1:]
			}
			b.WriteString(fn)
			b.WriteByte(';')
		}
		if !more {
			break
		}
	}
	h := fnv.New64a()
	h.Write([]byte(b.String()))
	sig := strconv.FormatUint(h.Sum64(), 36)
	callPathCache.Store(key, sig)
	return sig
}

func payloadSig(c *Call) string {
	if c.Bucket != nil && c.Bucket.LineSetSum {
		var sum uint64
		for _, ln := range bytes.Split(c.Data, []byte{'\n'}) {
			h := fnv.New64a()
			h.Write(ln)
			sum += h.Sum64()
		}
		return strconv.FormatUint(sum, 16)
	}
	return strconv.FormatUint(uint64(crc32.Checksum(c.Data, castagnoli)), 16)
}

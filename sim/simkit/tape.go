// Package simkit is the deterministic simulator: tape, world, scheduler, simulated
// object store, simulated disk, faults, history, shrinking.
package simkit

import "fmt"

// SplitMix64 is the only PRNG of the simulator.
func SplitMix64(x *uint64) uint64 {
	*x += 0x9e3779b97f4a7c15
	z := *x
	z = (z ^ (z >> 30)) * 0xbf58476d1ce4e5b9
	z = (z ^ (z >> 27)) * 0x94d049bb133111eb
	return z ^ (z >> 31)
}

// Mix derives a sub-seed.
func Mix(seed uint64, labels ...uint64) uint64 {
	x := seed
	out := SplitMix64(&x)
	for _, l := range labels {
		x ^= l * 0xd6e8feb86659fd93
		out ^= SplitMix64(&x)
	}
	return out
}

// Tape is a recorded stream of bounded choices. In record mode values come from the
// PRNG and are appended to Rec; in replay mode they come from Replay (reduced modulo
// the bound actually asked for) and read as 0 past the end.
type Tape struct {
	state     uint64
	Rec       []uint32
	replay    []uint32
	pos       int
	replaying bool
	Draws     int
}

// NewTape returns a recording tape seeded with seed.
func NewTape(seed uint64) *Tape { return &Tape{state: seed} }

// ReplayTape returns a tape that replays vals.
func ReplayTape(vals []uint32) *Tape {
	return &Tape{replay: vals, replaying: true}
}

// Choose returns a value in [0,n). n<=1 returns 0 and consumes nothing.
func (t *Tape) Choose(n int) int {
	if n <= 1 {
		return 0
	}
	t.Draws++
	var v uint32
	if t.replaying {
		if t.pos < len(t.replay) {
			v = t.replay[t.pos] % uint32(n)
		}
		t.pos++
	} else {
		v = uint32(SplitMix64(&t.state) % uint64(n))
	}
	t.Rec = append(t.Rec, v)
	return int(v)
}

// Bool is true with probability num/den.
func (t *Tape) Bool(num, den int) bool {
	if num <= 0 {
		return false
	}
	if num >= den {
		return true
	}
	// value 0 must mean "false" (the simplest outcome) so that zeroed/shrunk tapes
	// inject no fault.
	return t.Choose(den) >= den-num
}

// Range returns a value in [lo,hi].
func (t *Tape) Range(lo, hi int) int {
	if hi <= lo {
		return lo
	}
	return lo + t.Choose(hi-lo+1)
}

// Pick returns one of the given ints.
func (t *Tape) Pick(vals ...int) int { return vals[t.Choose(len(vals))] }

// Bytes returns n pseudo-random bytes derived from ONE tape draw (so that shrinking
// does not have to deal with content bytes individually).
func (t *Tape) Bytes(n int) []byte {
	s := uint64(t.Choose(1<<30)) + 1
	b := make([]byte, n)
	for i := 0; i < n; i += 8 {
		v := SplitMix64(&s)
		for j := 0; j < 8 && i+j < n; j++ {
			b[i+j] = byte(v >> (8 * j))
		}
	}
	return b
}

// Perm returns a permutation of 0..n-1.
func (t *Tape) Perm(n int) []int {
	p := make([]int, n)
	for i := range p {
		p[i] = i
	}
	for i := n - 1; i > 0; i-- {
		j := t.Choose(i + 1)
		p[i], p[j] = p[j], p[i]
	}
	return p
}

func (t *Tape) String() string { return fmt.Sprintf("tape(draws=%d)", t.Draws) }

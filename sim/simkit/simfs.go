package simkit

// Disk is a simulated local disk (see simfs_impl.go for the afero wrapper).
type Disk struct {
	Name string
	w    *World
}

func (d *Disk) apply(c *Call) result {
	if c.fsApply != nil {
		return c.fsApply()
	}
	return result{}
}

func (d *Disk) applyTorn(c *Call, t *Tape) result { return d.apply(c) }

package simkit

import (
	"os"
	"syscall"
	"time"

	"github.com/spf13/afero"
)

// Disk is a simulated local disk: an afero.Fs whose every call is a scheduling (and fault) point of its
// owning client. The bytes live in the wrapped afero.Fs (MemMapFs, or OsFs on a private directory for
// the kernel's O_EXCL).
type Disk struct {
	Label string
	w     *World
	c     *Client
	inner afero.Fs
	// Scheduled=false makes the disk pass-through (no parking): for scenarios where the disk is not the subject.
	Scheduled bool
}

// NewDisk wraps inner as the local disk of client c.
func (w *World) NewDisk(name string, c *Client, inner afero.Fs) *Disk {
	d := &Disk{Label: name, w: w, c: c, inner: inner, Scheduled: true}
	w.Disks = append(w.Disks, d)
	return d
}

func (d *Disk) apply(c *Call) result {
	if c.fsApply != nil {
		return c.fsApply()
	}
	return result{}
}

// applyTorn: a write lands partially and fails with ENOSPC.
func (d *Disk) applyTorn(c *Call, t *Tape) result {
	if c.Op == OpFsWrite && c.fsTorn != nil {
		return c.fsTorn(t)
	}
	return d.apply(c)
}

func (d *Disk) do(op Op, key string, data []byte, f func() result, torn func(*Tape) result) result {
	if !d.Scheduled {
		return f()
	}
	return d.w.submit(&Call{Client: d.c, Disk: d, Op: op, Key: key, Data: data, fsApply: f, fsTorn: torn})
}

// --- afero.Fs

// Create implements afero.Fs.
func (d *Disk) Create(name string) (afero.File, error) {
	r := d.do(OpFsCreate, name, nil, func() result {
		f, err := d.inner.Create(name)
		return result{any: f, err: err}
	}, nil)
	return d.wrapFile(name, r)
}

// Mkdir implements afero.Fs.
func (d *Disk) Mkdir(name string, perm os.FileMode) error {
	return d.do(OpFsMkdir, name, nil, func() result { return result{err: d.inner.Mkdir(name, perm)} }, nil).err
}

// MkdirAll implements afero.Fs.
func (d *Disk) MkdirAll(path string, perm os.FileMode) error {
	return d.do(OpFsMkdir, path, nil, func() result { return result{err: d.inner.MkdirAll(path, perm)} }, nil).err
}

// Open implements afero.Fs.
func (d *Disk) Open(name string) (afero.File, error) {
	r := d.do(OpFsOpen, name, nil, func() result {
		f, err := d.inner.Open(name)
		return result{any: f, err: err}
	}, nil)
	return d.wrapFile(name, r)
}

// OpenFile implements afero.Fs.
func (d *Disk) OpenFile(name string, flag int, perm os.FileMode) (afero.File, error) {
	op := OpFsOpen
	switch {
	case flag&os.O_EXCL != 0:
		op = OpFsCreateExcl
	case flag&os.O_CREATE != 0:
		op = OpFsCreate
	}
	r := d.do(op, name, nil, func() result {
		f, err := d.inner.OpenFile(name, flag, perm)
		return result{any: f, err: err}
	}, nil)
	return d.wrapFile(name, r)
}

func (d *Disk) wrapFile(name string, r result) (afero.File, error) {
	if r.err != nil {
		return nil, r.err
	}
	f, _ := r.any.(afero.File)
	if f == nil {
		return nil, syscall.EIO
	}
	return &diskFile{File: f, d: d, name: name}, nil
}

// Remove implements afero.Fs.
func (d *Disk) Remove(name string) error {
	return d.do(OpFsRemove, name, nil, func() result { return result{err: d.inner.Remove(name)} }, nil).err
}

// RemoveAll implements afero.Fs.
func (d *Disk) RemoveAll(path string) error {
	return d.do(OpFsRemove, path, nil, func() result { return result{err: d.inner.RemoveAll(path)} }, nil).err
}

// Rename implements afero.Fs.
func (d *Disk) Rename(oldname, newname string) error {
	return d.do(OpFsRename, oldname+" -> "+newname, nil, func() result { return result{err: d.inner.Rename(oldname, newname)} }, nil).err
}

// Stat implements afero.Fs.
func (d *Disk) Stat(name string) (os.FileInfo, error) {
	r := d.do(OpFsStat, name, nil, func() result {
		fi, err := d.inner.Stat(name)
		return result{any: fi, err: err}
	}, nil)
	fi, _ := r.any.(os.FileInfo)
	return fi, r.err
}

// Name implements afero.Fs.
func (d *Disk) Name() string { return "simfs(" + d.inner.Name() + ")" }

// Chmod implements afero.Fs.
func (d *Disk) Chmod(name string, mode os.FileMode) error { return d.inner.Chmod(name, mode) }

// Chown implements afero.Fs.
func (d *Disk) Chown(name string, uid, gid int) error { return d.inner.Chown(name, uid, gid) }

// Chtimes implements afero.Fs.
func (d *Disk) Chtimes(name string, atime time.Time, mtime time.Time) error {
	return d.do(OpFsOther, "chtimes "+name, nil, func() result { return result{err: d.inner.Chtimes(name, atime, mtime)} }, nil).err
}

// diskFile makes Write / WriteAt / Close / Sync of an open file scheduling points too.
type diskFile struct {
	afero.File
	d    *Disk
	name string
}

func (f *diskFile) Write(p []byte) (int, error) {
	cp := append([]byte(nil), p...)
	r := f.d.do(OpFsWrite, f.name, cp, func() result {
		n, err := f.File.Write(cp)
		return result{n: n, err: err}
	}, func(t *Tape) result {
		k := 0
		if len(cp) > 1 {
			k = t.Range(0, len(cp)-1)
		}
		n, _ := f.File.Write(cp[:k])
		return result{n: n, err: syscall.ENOSPC}
	})
	return r.n, r.err
}

func (f *diskFile) WriteAt(p []byte, off int64) (int, error) {
	cp := append([]byte(nil), p...)
	r := f.d.do(OpFsWrite, f.name, cp, func() result {
		n, err := f.File.WriteAt(cp, off)
		return result{n: n, err: err}
	}, func(t *Tape) result {
		k := 0
		if len(cp) > 1 {
			k = t.Range(0, len(cp)-1)
		}
		n, _ := f.File.WriteAt(cp[:k], off)
		return result{n: n, err: syscall.ENOSPC}
	})
	return r.n, r.err
}

func (f *diskFile) Close() error {
	return f.d.do(OpFsClose, f.name, nil, func() result { return result{err: f.File.Close()} }, nil).err
}

func (f *diskFile) Sync() error {
	return f.d.do(OpFsSync, f.name, nil, func() result { return result{err: f.File.Sync()} }, nil).err
}

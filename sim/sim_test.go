//go:debug randseednop=0

package verifsim

import (
	"bufio"
	"crypto/sha256"
	"encoding/hex"
	"encoding/json"
	"fmt"
	"hash/fnv"
	"math/rand"
	"os"
	"runtime"
	"strconv"
	"strings"
	"sync/atomic"
	"testing"
	"testing/synctest"
	"time"

	"github.com/segmentio/ksuid"

	"verifsim/props"
	"verifsim/simkit"
)

// RunRecord is one JSON line of worker output.
type RunRecord struct {
	Kind       string            `json:"kind"` // run | violation | determinism | replay | summary
	K          int               `json:"k"`
	Seed       uint64            `json:"seed"`
	Prop       string            `json:"prop"`
	Scenario   string            `json:"scenario"`
	Strict     bool              `json:"strict"`
	Events     int               `json:"events"`
	Steps      int               `json:"steps"`
	SimMs      int64             `json:"sim_ms"`
	WallUs     int64             `json:"wall_us"`
	MaxParked  int               `json:"max_parked"`
	Concurrent int               `json:"concurrent"`
	Faults     map[string]int    `json:"faults,omitempty"`
	Probes     map[string]int    `json:"probes,omitempty"`
	SchedHash  string            `json:"sched_hash"`
	WorkHash   string            `json:"work_hash"`
	EventHash  string            `json:"event_hash"`
	StateHash  string            `json:"state_hash"`
	Violation  *simkit.Violation `json:"violation,omitempty"`
	Replay     string            `json:"replay,omitempty"`
	Notes      []string          `json:"notes,omitempty"`
	Tail       []string          `json:"tail,omitempty"`
	Message    string            `json:"message,omitempty"`
	ShrunkFrom int               `json:"shrunk_from_events,omitempty"`
}

// ReplayFile is the on-disk replay format (DESIGN §10.1).
type ReplayFile struct {
	Property  string   `json:"property"`
	Scenario  string   `json:"scenario"`
	Tier      string   `json:"tier"`
	Seed      uint64   `json:"seed"`
	Workload  []uint32 `json:"tape_workload"`
	Schedule  []uint32 `json:"tape_schedule"`
	Class     string   `json:"class"`
	Discr     string   `json:"discriminator"`
	Object    string   `json:"object"`
	Message   string   `json:"message"`
	Strict    bool     `json:"strict"`
	Events    int      `json:"events"`
	EventHash string   `json:"event_hash"`
	FromEv    int      `json:"minimised_from_events"`
	Rendered  []string `json:"rendered,omitempty"`
	Tail      []string `json:"tail,omitempty"`
}

type prngReader struct{ s uint64 }

func (p *prngReader) Read(b []byte) (int, error) {
	for i := 0; i < len(b); i += 8 {
		v := simkit.SplitMix64(&p.s)
		for j := 0; j < 8 && i+j < len(b); j++ {
			b[i+j] = byte(v >> (8 * j))
		}
	}
	return len(b), nil
}

var currentProgress atomic.Pointer[atomic.Int64]
var currentLabel atomic.Value

// runOne executes one scenario run in a fresh bubble.
func runOne(t *testing.T, sc *props.Scenario, tier string, wt, st *simkit.Tape) (rec RunRecord) {
	rec.Kind = "run"
	rec.Prop, rec.Scenario, rec.Strict = sc.Prop, sc.Name, sc.Strict
	t0 := time.Now()
	dir, err := os.MkdirTemp("", "verifsim-")
	if err != nil {
		panic(err)
	}
	defer os.RemoveAll(dir)
	simkit.DebugParked = os.Getenv("VERIF_DUMP") != ""
	body := func(t *testing.T) {
		kseed := uint64(wt.Choose(1<<30)) + 1
		ksuid.SetRand(&prngReader{s: kseed})
		// the global math/rand source feeds the jitter of cenkalti/backoff (localfs, purge): pin it to the seed
		rand.Seed(int64(kseed)) //nolint:staticcheck
		cfg := sc.Cfg
		cfg.Immediate = sc.NoBubble
		w := simkit.NewWorld(t, wt, st, cfg)
		simkit.SetCurrent(w)
		defer simkit.SetCurrent(nil)
		currentProgress.Store(w.Progress)
		w.OnTaskPanic = func(tk *simkit.Task) *simkit.Violation { return props.PanicViolation(sc.Prop, tk) }
		w.SetEpoch(wt.Choose(86400 * 300))
		rc := &props.RunCtx{T: t, W: w, Tier: tier, Dir: dir, Prop: sc.Prop}
		v := sc.Run(rc)
		w.Freeze()
		if v == nil {
			v = w.Violation()
		}
		if v != nil && v.Property == "" {
			v.Property = sc.Prop
		}
		rec.Violation = v
		rec.Events, rec.Steps = w.Stats.Events, w.Stats.Steps
		rec.SimMs = int64(w.SimTime() / time.Millisecond)
		rec.MaxParked, rec.Concurrent = w.Stats.MaxParked, w.Stats.Concurrent
		rec.Faults, rec.Probes = w.CountersSnapshot()
		rec.EventHash, rec.StateHash = w.EventHash(), w.StateHash()
		rec.Notes = w.Notes
		rec.Tail = w.Tail(40)
		if os.Getenv("VERIF_DUMP") != "" {
			rec.Tail = w.Tail(1 << 30)
		}
	}
	if sc.NoBubble {
		body(t)
	} else {
		func() {
			defer func() {
				if r := recover(); r != nil {
					msg := fmt.Sprint(r)
					if strings.Contains(msg, "deadlock: main bubble goroutine has exited") {
						return // leaked goroutines of dead clients / prefetchers: expected
					}
					panic(r)
				}
			}()
			synctest.Test(t, body)
		}()
	}
	rec.SchedHash = tapeHash(st.Rec)
	rec.WorkHash = tapeHash(wt.Rec)
	rec.WallUs = int64(time.Since(t0) / time.Microsecond)
	return rec
}

func tapeHash(v []uint32) string {
	h := sha256.New()
	var b [4]byte
	for _, x := range v {
		b[0], b[1], b[2], b[3] = byte(x), byte(x>>8), byte(x>>16), byte(x>>24)
		h.Write(b[:])
	}
	return hex.EncodeToString(h.Sum(nil))[:16]
}

func trimZeros(v []uint32) []uint32 {
	n := len(v)
	for n > 0 && v[n-1] == 0 {
		n--
	}
	return append([]uint32(nil), v[:n]...)
}

func propHash(s string) uint64 {
	h := fnv.New64a()
	h.Write([]byte(s))
	return h.Sum64()
}

func pickScenario(scs []*props.Scenario, tier string, r uint64) *props.Scenario {
	total := 0
	for _, s := range scs {
		total += weight(s, tier)
	}
	if total == 0 {
		return nil
	}
	x := int(r % uint64(total))
	for _, s := range scs {
		x -= weight(s, tier)
		if x < 0 {
			return s
		}
	}
	return nil
}

func weight(s *props.Scenario, tier string) int {
	if tier == "thorough" {
		return s.Thorough
	}
	return s.Quick
}

func envInt(name string, def int64) int64 {
	if v := os.Getenv(name); v != "" {
		n, err := strconv.ParseInt(v, 10, 64)
		if err == nil {
			return n
		}
		u, err := strconv.ParseUint(v, 10, 64)
		if err == nil {
			return int64(u)
		}
	}
	return def
}

// shrink minimises (wt, st) while the same violation ident persists.
func shrink(t *testing.T, sc *props.Scenario, tier string, wrec, srec []uint32, ident string, budget time.Duration) ([]uint32, []uint32, RunRecord, int) {
	deadline := time.Now().Add(budget)
	tries := 0
	best := RunRecord{}
	test := func(wv, sv []uint32) (bool, RunRecord, []uint32, []uint32) {
		tries++
		wt, st := simkit.ReplayTape(wv), simkit.ReplayTape(sv)
		r := runOne(t, sc, tier, wt, st)
		if r.Violation != nil && r.Violation.Ident() == ident {
			return true, r, trimZeros(wt.Rec), trimZeros(st.Rec)
		}
		return false, r, nil, nil
	}
	ok, r, w0, s0 := test(wrec, srec)
	if !ok {
		return wrec, srec, best, tries // does not even replay: caller reports
	}
	best, wrec, srec = r, w0, s0
	pass := func(which int) bool {
		improved := false
		cur := func() []uint32 {
			if which == 0 {
				return srec
			}
			return wrec
		}
		try := func(cand []uint32) bool {
			if time.Now().After(deadline) {
				return false
			}
			var ok bool
			var r RunRecord
			var nw, ns []uint32
			if which == 0 {
				ok, r, nw, ns = test(wrec, cand)
			} else {
				ok, r, nw, ns = test(cand, srec)
			}
			if ok && (len(nw)+len(ns) < len(wrec)+len(srec) || sum(nw)+sum(ns) < sum(wrec)+sum(srec)) {
				best, wrec, srec = r, nw, ns
				improved = true
				return true
			}
			return false
		}
		// 1. truncate tail (binary)
		for n := len(cur()) / 2; n >= 1; n /= 2 {
			for len(cur()) > n && try(append([]uint32(nil), cur()[:len(cur())-n]...)) {
			}
		}
		// 2. delete blocks, 3. zero blocks
		for size := len(cur()) / 2; size >= 1; size /= 2 {
			for i := 0; i+size <= len(cur()); {
				c := cur()
				cand := append(append([]uint32(nil), c[:i]...), c[i+size:]...)
				if try(cand) {
					continue
				}
				allZero := true
				for _, x := range c[i : i+size] {
					if x != 0 {
						allZero = false
					}
				}
				if !allZero {
					cand = append([]uint32(nil), c...)
					for j := i; j < i+size; j++ {
						cand[j] = 0
					}
					if try(cand) {
						i += size
						continue
					}
				}
				i += size
			}
			if time.Now().After(deadline) {
				break
			}
		}
		// 4. lower single values
		for i := 0; i < len(cur()); i++ {
			c := cur()
			if i >= len(c) || c[i] == 0 {
				continue
			}
			for _, nv := range []uint32{0, c[i] / 2, c[i] - 1} {
				if nv >= c[i] {
					continue
				}
				cand := append([]uint32(nil), c...)
				cand[i] = nv
				if try(cand) {
					break
				}
			}
			if time.Now().After(deadline) {
				break
			}
		}
		return improved
	}
	for round := 0; round < 4 && time.Now().Before(deadline); round++ {
		a := pass(0)
		b := pass(1)
		if !a && !b {
			break
		}
	}
	return wrec, srec, best, tries
}

func sum(v []uint32) (s uint64) {
	for _, x := range v {
		s += uint64(x)
	}
	return
}

func startWatchdog(out func(RunRecord), limit time.Duration) {
	go func() {
		var last int64 = -1
		var lastP *atomic.Int64
		stuck := time.Now()
		for {
			time.Sleep(500 * time.Millisecond)
			p := currentProgress.Load()
			if p == nil {
				stuck = time.Now()
				continue
			}
			v := p.Load()
			if p != lastP || v != last {
				lastP, last, stuck = p, v, time.Now()
				continue
			}
			if time.Since(stuck) > limit {
				buf := make([]byte, 4<<20)
				n := runtime.Stack(buf, true)
				lbl, _ := currentLabel.Load().(string)
				out(RunRecord{Kind: "stall", Message: lbl, Tail: strings.Split(string(buf[:n]), "\n")})
				os.Exit(4)
			}
		}
	}()
}

// TestWorker is the single entry point of the simulator binary.
func TestWorker(t *testing.T) {
	prop := os.Getenv("VERIF_PROP")
	if prop == "" {
		t.Skip("VERIF_PROP not set")
	}
	tier := os.Getenv("VERIF_TIER")
	if tier == "" {
		tier = "quick"
	}
	base := uint64(envInt("VERIF_SEED", 1))
	from := int(envInt("VERIF_FROM", 0))
	n := int(envInt("VERIF_N", 100))
	maxWall := time.Duration(envInt("VERIF_WALL_S", 0)) * time.Second
	detEvery := int(envInt("VERIF_DET_EVERY", 10))
	only := os.Getenv("VERIF_SCENARIO")
	known := map[string]bool{}
	for _, k := range strings.Split(os.Getenv("VERIF_KNOWN"), ",") {
		if k != "" {
			known[k] = true
		}
	}
	outPath := os.Getenv("VERIF_OUT")
	var outW *bufio.Writer
	if outPath != "" {
		f, err := os.Create(outPath)
		if err != nil {
			t.Fatal(err)
		}
		defer f.Close()
		outW = bufio.NewWriter(f)
		defer outW.Flush()
	} else {
		outW = bufio.NewWriter(os.Stdout)
		defer outW.Flush()
	}
	emit := func(r RunRecord) {
		b, _ := json.Marshal(r)
		outW.Write(b)
		outW.WriteByte('\n')
		outW.Flush()
	}
	startWatchdog(emit, time.Duration(envInt("VERIF_WATCHDOG_S", 90))*time.Second)

	scs := props.For(prop)
	if only != "" {
		s := props.Find(prop, only)
		if s == nil {
			t.Fatalf("no scenario %s/%s", prop, only)
		}
		scs = []*props.Scenario{s}
		if weight(s, tier) == 0 {
			cp := *s
			cp.Quick, cp.Thorough = 1, 1
			scs = []*props.Scenario{&cp}
		}
	}
	if len(scs) == 0 {
		t.Fatalf("no scenario registered for %s", prop)
	}

	if rp := os.Getenv("VERIF_REPLAY"); rp != "" {
		replayFile(t, rp, emit)
		return
	}

	start := time.Now()
	seenIdent := map[string]int{}
	for k := from; k < from+n; k++ {
		if maxWall > 0 && time.Since(start) > maxWall {
			break
		}
		seed := simkit.Mix(base, propHash(prop), uint64(k))
		sc := pickScenario(scs, tier, simkit.Mix(seed, 7))
		if sc == nil {
			t.Fatalf("no scenario with weight in tier %s for %s", tier, prop)
		}
		currentLabel.Store(fmt.Sprintf("prop=%s scenario=%s seed=%d k=%d", prop, sc.Name, seed, k))
		wt, st := simkit.NewTape(simkit.Mix(seed, 1)), simkit.NewTape(simkit.Mix(seed, 2))
		rec := runOne(t, sc, tier, wt, st)
		rec.K, rec.Seed = k, seed
		notes, tail := rec.Notes, rec.Tail
		if rec.Violation == nil {
			rec.Tail = nil
			if k-from >= 3 {
				rec.Notes = nil
			}
		}
		emit(rec)
		if rec.Violation == nil && sc.Strict && !sc.NoBubble && detEvery > 0 && k%detEvery == 0 {
			// sampled determinism + replay-path self-test
			r2 := runOne(t, sc, tier, simkit.ReplayTape(wt.Rec), simkit.ReplayTape(st.Rec))
			if r2.EventHash != rec.EventHash || r2.Violation != nil {
				emit(RunRecord{Kind: "determinism", K: k, Seed: seed, Prop: prop, Scenario: sc.Name,
					Message: fmt.Sprintf("replay of the recorded tape diverged: events %d vs %d hash %s vs %s viol=%v", rec.Events, r2.Events, rec.EventHash, r2.EventHash, r2.Violation), Tail: r2.Tail, Notes: tail})
			} else {
				emit(RunRecord{Kind: "determinism", K: k, Seed: seed, Prop: prop, Scenario: sc.Name, Message: "ok"})
			}
		}
		if rec.Violation != nil {
			id := rec.Violation.Ident()
			seenIdent[id]++
			if seenIdent[id] > 1 {
				continue
			}
			rf := ReplayFile{Property: prop, Scenario: sc.Name, Tier: tier, Seed: seed, Workload: trimZeros(wt.Rec), Schedule: trimZeros(st.Rec),
				Class: rec.Violation.Class, Discr: rec.Violation.Discr, Object: rec.Violation.Object, Message: rec.Violation.Message,
				Strict: sc.Strict, Events: rec.Events, EventHash: rec.EventHash, FromEv: rec.Events, Rendered: notes, Tail: tail}
			dir := os.Getenv("VERIF_REPLAY_DIR")
			if dir == "" {
				dir = os.TempDir()
			}
			path := fmt.Sprintf("%s/%s-%s-%s-%d.json", dir, prop, sanitize(rec.Violation.Class), sanitize(rec.Violation.Discr), seed)
			write := func() {
				b, _ := json.MarshalIndent(rf, "", " ")
				_ = os.WriteFile(path, b, 0o644)
				emit(RunRecord{Kind: "violation", K: k, Seed: seed, Prop: prop, Scenario: sc.Name, Violation: rec.Violation, Replay: path,
					Events: rf.Events, ShrunkFrom: rf.FromEv, Notes: rf.Rendered, Tail: rf.Tail, Message: rf.Message})
			}
			// the unshrunk replay file is on disk before shrinking starts (a shrink candidate may
			// wedge the process; the driver then still has a valid replay)
			write()
			if !known[id] && !sc.NoBubble {
				currentLabel.Store(fmt.Sprintf("shrinking prop=%s scenario=%s seed=%d k=%d", prop, sc.Name, seed, k))
				budget := time.Duration(envInt("VERIF_SHRINK_S", 60)) * time.Second
				wv, sv, best, tries := shrink(t, sc, tier, wt.Rec, st.Rec, id, budget)
				if best.Violation != nil {
					rf.Workload, rf.Schedule = wv, sv
					rf.Events, rf.EventHash = best.Events, best.EventHash
					rf.Message, rf.Object = best.Violation.Message, best.Violation.Object
					rf.Rendered, rf.Tail = best.Notes, best.Tail
					rec.Violation = best.Violation
				} else {
					rf.Message += fmt.Sprintf(" [NOT REPRODUCED on in-process replay after %d tries]", tries)
				}
				write()
			}
		}
	}
	emit(RunRecord{Kind: "summary", Prop: prop, Message: "done"})
}

func sanitize(s string) string {
	var b strings.Builder
	for _, r := range s {
		if (r >= 'a' && r <= 'z') || (r >= 'A' && r <= 'Z') || (r >= '0' && r <= '9') || r == '-' || r == '_' {
			b.WriteRune(r)
		} else {
			b.WriteByte('_')
		}
	}
	if b.Len() > 60 {
		return b.String()[:60]
	}
	return b.String()
}

func replayFile(t *testing.T, path string, emit func(RunRecord)) {
	b, err := os.ReadFile(path)
	if err != nil {
		t.Fatal(err)
	}
	var rf ReplayFile
	if err := json.Unmarshal(b, &rf); err != nil {
		t.Fatal(err)
	}
	sc := props.Find(rf.Property, rf.Scenario)
	if sc == nil {
		t.Fatalf("unknown scenario %s/%s", rf.Property, rf.Scenario)
	}
	currentLabel.Store("replay " + path)
	rec := runOne(t, sc, rf.Tier, simkit.ReplayTape(rf.Workload), simkit.ReplayTape(rf.Schedule))
	rec.Kind = "replay"
	rec.Seed = rf.Seed
	switch {
	case rec.Violation == nil:
		rec.Message = "NOT-REPRODUCED: no violation on replay"
	case rec.Violation.Class != rf.Class || rec.Violation.Discr != rf.Discr:
		rec.Message = fmt.Sprintf("DIFFERENT: replay gives %s, file says %s/%s", rec.Violation.Ident(), rf.Class, rf.Discr)
	case rf.Strict && rf.EventHash != "" && rec.EventHash != rf.EventHash:
		rec.Message = "REPRODUCED-BUT-LOG-DIFFERS: same violation, event log hash differs (harness error for a strict scenario)"
	default:
		rec.Message = "REPRODUCED"
	}
	emit(rec)
}

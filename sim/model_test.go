package verifsim

import (
	"bufio"
	"bytes"
	"context"
	"encoding/json"
	"os"
	"testing"

	"github.com/oneconcern/datamon/pkg/cafs"
	"github.com/oneconcern/datamon/pkg/storage/localfs"
	"github.com/spf13/afero"
	"go.uber.org/zap"

	"verifsim/refmodel"
)

// TestModelSelfBlake writes test vectors of the reference BLAKE2b tree model (checked against
// Python hashlib by selftest.py) and checks the same vectors against the real cafs writer over
// a plain in-memory localfs.
func TestModelSelfBlake(t *testing.T) {
	path := os.Getenv("VERIF_VECTORS")
	if path == "" {
		t.Skip("VERIF_VECTORS not set")
	}
	f, err := os.Create(path)
	if err != nil {
		t.Fatal(err)
	}
	defer f.Close()
	w := bufio.NewWriter(f)
	defer w.Flush()
	for _, leaf := range []uint32{64, 65, 100, 1024, 4096} {
		for _, n := range []int{0, 1, int(leaf) - 1, int(leaf), int(leaf) + 1, 2 * int(leaf), 3*int(leaf) + 17, 6 * int(leaf)} {
			seed := int(leaf) + n
			content := make([]byte, n)
			for i := range content {
				content[i] = byte((i*31 + seed) & 0xff)
			}
			root, leaves := refmodel.TreeKeys(content, leaf)
			var ls []string
			for _, l := range leaves {
				ls = append(ls, refmodel.Hex(l))
			}
			if ls == nil {
				ls = []string{}
			}
			b, _ := json.Marshal(map[string]interface{}{"leaf": leaf, "len": n, "seed": seed, "root": refmodel.Hex(root), "leaves": ls})
			w.Write(b)
			w.WriteByte('\n')
			// the real writer
			fs, err := cafs.New(cafs.LeafSize(leaf), cafs.Backend(localfs.New(afero.NewBasePathFs(afero.NewMemMapFs(), "/b"), localfs.WithLogger(zap.NewNop()))), cafs.Logger(zap.NewNop()))
			if err != nil {
				t.Fatal(err)
			}
			res, err := fs.Put(context.Background(), bytes.NewReader(content))
			if err != nil {
				t.Fatalf("leaf %d len %d: %v", leaf, n, err)
			}
			if res.Key.String() != refmodel.Hex(root) {
				t.Fatalf("leaf %d len %d: cafs key %s != model %s", leaf, n, res.Key, refmodel.Hex(root))
			}
		}
	}
}

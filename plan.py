"""Budgets per property and tier, and the static part of the evidence (level, rule, components)."""

REAL = ["pkg/cafs (writer, reader, hasher, freelists, LRU)", "pkg/core", "pkg/model", "pkg/storage/localfs", "pkg/wal", "pkg/fuse file-system logic", "pebble KV (purge)"]
STUB = ["object stores: simstore (GCS contract model)", "clock: testing/synctest fake clock", "KSUID entropy: seeded PRNG", "no kernel FUSE transport", "no GCS/S3 SDK"]

RULE = ("each run = one seed -> (workload tape, schedule/fault tape); the scheduler parks every store/disk call of the real "
        "datamon code and releases one (group of indistinguishable) call(s) per step chosen from the tape. A run is counted "
        "distinct by (scenario, workload-tape hash, schedule-tape hash) and non-trivial if it passed AND had >=1 step with >=2 "
        "distinguishable calls parked, or >=1 fault that actually fired, or reached the scenario's own 'nontrivial' probe "
        "(e.g. a corruption was injected and then read back)")


def P(qr, qw, tr, tw, **kw):
    d = {"quick": dict(runs=qr, wall=qw, **kw), "thorough": dict(runs=tr, wall=tw, **kw)}
    return d


PLAN = {
    "C01": P(6000, 75, 200000, 900),
}

LEVELS = {
    "C01": {"level": "exploration", "rule": RULE,
            "components": {"real": ["pkg/cafs writer/reader/hasher/freelists/LRU/prefetch"], "stub": STUB},
            "text": "seeded exploration of (content length x leaf size x source chunking x flush concurrency x read programs x prefetch/cache settings x interleavings of leaf Gets among concurrent readers and prefetchers); every returned byte compared with the source; separate configuration with transient Get failures where a read may fail but never return other bytes",
            "note": "trusts simstore as a faithful GCS-contract model and the Go runtime; sampled, not exhaustive",
            "assumptions": ["object store behaves per the GCS contract modelled by simstore", "interleavings are controlled at store-call granularity",
                            "objects <= ~6 leaves; 5 MiB leaves only in the thorough tier"]},
}

NOT_APPLICABLE = [
    {"property_id": "C20", "reason": "pure functions of their inputs (path builders/parsers, regexps, YAML marshalling): no schedule, clock, I/O, fault or interleaving for a simulator to control (DESIGN.md §7)"},
    {"property_id": "C21", "reason": "pure deterministic encode function checked against a decoder; nothing to schedule or fault (DESIGN.md §7)"},
    {"property_id": "C22", "reason": "in-memory radix-tree structure not wired to any I/O, statement about sequential write histories only; input generation, not simulation (DESIGN.md §7)"},
]
PENDING = ["C02", "C03", "C04", "C05", "C06", "C07", "C08", "C09", "C10", "C11", "C12", "C13", "C14", "C15", "C16", "C17", "C18", "C19"]
for _p in PENDING:
    if _p not in PLAN:
        NOT_APPLICABLE.append({"property_id": _p, "reason": "claimed by design (DESIGN.md §6) but its check is not registered yet in this commit (work in progress)"})

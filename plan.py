"""Budgets per property and tier, and the static part of the evidence (level, rule, components)."""

REAL = ["pkg/cafs (writer, reader, hasher, freelists, LRU)", "pkg/core", "pkg/model", "pkg/storage/localfs", "pkg/wal", "pkg/fuse file-system logic", "pebble KV (purge)"]
STUB = ["object stores: simstore (GCS contract model)", "clock: testing/synctest fake clock", "KSUID entropy: seeded PRNG", "no kernel FUSE transport", "no GCS/S3 SDK"]

RULE = ("each run = one seed -> (workload tape, schedule/fault tape); the scheduler parks every store/disk call of the real "
        "datamon code and releases one (group of indistinguishable) call(s) per step chosen from the tape. A run is counted "
        "distinct by (scenario, workload-tape hash, schedule-tape hash) and non-trivial if it passed AND had >=1 step with >=2 "
        "distinguishable calls parked, or >=1 fault that actually fired, or reached the scenario's own 'nontrivial' probe "
        "(e.g. a corruption was injected and then read back)")


def P(qr, qw, tr, tw, **kw):
    d = {"quick": dict(runs=qr, wall=qw, **kw), "thorough": dict(runs=tr, wall=tw, **kw)}
    d["quick"].setdefault("watchdog_s", 90)
    d["thorough"]["watchdog_s"] = max(240, kw.get("watchdog_s", 0))
    return d


PLAN = {
    "C01": P(6000, 75, 200000, 900),
    "C02": P(5000, 75, 150000, 900),
    "C15": P(400, 100, 20000, 1200, chunk=100, race_runs_quick=16, race_runs_thorough=3000),
    "C18": P(2000, 90, 60000, 900, chunk=200),
    "C17": P(1500, 90, 40000, 900, chunk=150, race_runs_quick=16, race_runs_thorough=2000),
    "C05": P(1500, 90, 40000, 900, chunk=150),
    "C16": P(2500, 90, 60000, 900),
    "C19": P(2500, 90, 60000, 900),
    "C13": P(800, 110, 20000, 1500, chunk=60, watchdog_s=120),
    "C14": P(800, 110, 20000, 1500, chunk=60, watchdog_s=120),
    "C12": P(1500, 100, 40000, 1200, chunk=150),
    "C11": P(1200, 100, 30000, 1200, chunk=150),
    "C10": P(1200, 100, 30000, 1200, chunk=150),
    "C09": P(1200, 100, 30000, 1200, chunk=150),
    "C08": P(2500, 90, 60000, 900),
    "C07": P(1500, 100, 30000, 1200, chunk=150),
    "C06": P(1500, 100, 40000, 1200, chunk=150),
    "C04": P(1500, 100, 40000, 1200, chunk=150),
    "C03": P(2000, 90, 60000, 900),
}

LEVELS = {
    "C15": {"level": "exploration", "rule": RULE + "; mode B (race-stress) runs are real parallel executions under the race detector and are counted separately in coverage.race_mode_runs",
            "text": "mode A (simulation): 2..16 client tasks run uploads to two repositories, split uploads into an open diamond, a download, label sets, a listing and the commit of a complete diamond concurrently on shared buckets, all contents drawn from a 5-value pool (heavy dedup), under the seeded scheduler; every operation must complete (no deadlock, bounded steps) and produce the result it produces alone (bundles download to their sources, the download equals the bundle, labels resolve, the commit is the merge, every split is done). A second mode-A configuration switches on the in-memory yield points of pkg/cafs. Mode B (runtime detection, not simulation): the same seeded workloads with the scheduler off and real parallelism, in a -race build; a race report is a violation",
            "note": "the scheduler's hand-offs create happens-before edges that blind the race detector across clients in mode A, hence mode B; a race found by mode B is reported with the detector's output and the seed, its replay is a re-run of that seed (not guaranteed to reproduce)",
            "components": {"real": ["pkg/core", "pkg/cafs", "pkg/storage/localfs"], "stub": STUB},
            "assumptions": []},
    "C18": {"level": "exploration", "rule": RULE + "; here a run is one random operation program (<= 60 operations) followed by a scheduled commit and download",
            "text": "random programs of CreateFile, MkDir, WriteFile, SetInodeAttributes(size), ReadFile (also across EOF, as page-sized kernel reads are), LookUpInode (existing and missing names), Unlink, RmDir (empty and non-empty), Rename (onto a free name, file onto file), GetInodeAttributes + ReadDir (one large buffer, or buffers of one or two entries resumed at each returned offset), and ForgetInode with the kernel's counting (all references of an unlinked node; of a live node under cache pressure, followed later by a fresh lookup) over 4 names, on a real staging directory; each answer (success / errno, inode, type, size, st_nlink, bytes, directory content) is compared with a reference POSIX tree and no two live entries may share an inode; the mount is then committed into the simulated stores under the scheduler and the bundle downloaded: its files equal the visible tree",
            "note": "only requests a kernel can send are generated (the VFS answers EEXIST / EISDIR / ENOTDIR / same-entry renames itself; directory-over-directory renames are not generated); a fatal Go error or a panic outside the caller's goroutine kills the worker and is reported with its seed",
            "components": {"real": ["pkg/fuse mutable file system + commit", "pkg/core", "pkg/cafs", "afero OsFs staging directory"], "stub": STUB},
            "assumptions": ["one caller (the statement quantifies over programs, not schedules)"]},
    "C17": {"level": "exploration", "rule": RULE,
            "text": "bundles built by real uploads (deep nesting, 20-60 siblings, empty and multi-leaf files, hostile names) are mounted read-only, streamed and pre-downloaded; 1..4 caller tasks (the FUSE server dispatches each kernel request on its own goroutine) issue random programs of lookup walks, getattr, opendir/readdir with 48..4096-byte buffers resumed at every returned offset, and OpenFile + ReadFile at any offset/length including at and after EOF + FlushFile + ReleaseFileHandle (now and then followed by the kernel's ForgetInode and a fresh lookup), while the scheduler interleaves the leaf reads of the streaming cafs (LRU 1-6 buffers, prefetch 0-2); a configuration adds transient blob-read failures (EIO or correct bytes); another switches on the in-memory yield points of pkg/cafs (callers of a streamed mount share one leaf cache). Oracle: the directory tree implied by the uploaded files. Mode B (runtime detection, not simulation): 4..8 callers with longer programs on the same mounts, scheduler off, real parallelism, -race build: a race report in the file system's request paths is a violation (requests that never reach a store call have no seam for the scheduler to interleave)",
            "note": "the file-system methods are called directly (reflect on the unexported fsInternal field): no kernel FUSE transport; the streamed mount is given the bundle's leaf size up front (DESIGN §6 C17)",
            "components": {"real": ["pkg/fuse read-only file system + bundle_read", "pkg/core publish", "pkg/cafs reader"], "stub": STUB},
            "assumptions": ["hash verification enabled on the mount"]},
    "C05": {"level": "exploration", "rule": RULE,
            "text": "pairs of trees with controlled overlap (identical, disjoint, kept / changed / removed / renamed / added paths, empty trees) are uploaded as two bundles; the first is downloaded, Diff(local copy, second bundle) is compared with the model's symmetric difference (each path once, A/D/U decided by content key), then Update runs with every local-disk call (mkdir, open, write, close, remove) and every store call a scheduling point - and, in a second configuration, a fault point (EIO, short write + ENOSPC, failing blob reads); a successful Update must leave the directory byte-identical, .datamon metadata included, to a fresh download of the second bundle; when an Update failed under a fault it is run again without faults, and if that run reports success the same holds",
            "note": "weak-replay: the order in which Update schedules its file operations follows Go map iteration inside diffBundles; violations must reproduce on replay",
            "components": {"real": ["pkg/core diff/update/download/upload", "pkg/storage/localfs", "pkg/cafs"], "stub": STUB + ["simfs over MemMapFs"]},
            "assumptions": []},
    "C16": {"level": "exploration", "rule": RULE,
            "text": "(a) seeded histories of Put (overwrite / create-if-absent) / Get (Read and the reader's WriteTo) / GetAt / Has / GetAttr / Touch / Delete / Clear / Keys / KeysPrefix (every page size, following next, also after abandoning a pagination half-way) over hierarchical keys whose components are prefixes of one another, on MemMapFs and on a real temporary directory, checked step by step against a map model whose listing is exact-prefix, delimiter roll-up, lexicographic, each item once; (b) 2..4 writers creating the same key with create-if-absent through simfs, where every afero call (mkdir, open O_EXCL, write, close) of every writer is a scheduling point and the back-off runs on the simulated clock: exactly one wins and the key holds its bytes; the same race with one or two disk errors (EIO, short write + ENOSPC, failing close) on the writers' file writes: writers may fail and retry, never do two win, a winner's bytes are the key's",
            "note": "keys are generated so that no key is a directory prefix of another (a file system cannot hold both); Keys() order is not asserted",
            "components": {"real": ["pkg/storage/localfs", "afero MemMapFs / OsFs (kernel O_EXCL)"], "stub": ["simfs scheduling wrapper", "clock: testing/synctest"]},
            "assumptions": []},
    "C19": {"level": "exploration", "rule": RULE,
            "text": "1..4 appender clients add entries (empty, multi-line, YAML-looking, >1 KiB payloads) under sampled interleavings of their Touch / GetAttr / Put triplets, with call latencies up to 0.7 s and pauses so that appends fall into different seconds; oracle: tokens are unique KSUIDs, an append that returned in an earlier second than another was invoked has the smaller token, the stored entry holds the payload unchanged, ListTokens from issued and synthetic tokens with max 1..1000 returns exactly the look-back window in token order; a live reader lists through one log value while the appends are in flight (often repeating the same from/max): each such listing - a single store call - must equal the window as it was at some instant between its invocation and its return. Reading entries back through ListEntries is a recorded finding (reproduced by a directed scenario)",
            "note": "simstore's KeysPrefix honours a start key (the contract pkg/wal is written against); the log is driven as a library (nothing in datamon calls it)",
            "components": {"real": ["pkg/wal", "pkg/model wal"], "stub": STUB},
            "assumptions": ["token generator and log live in two buckets, as in the package's own tests"]},
    "C13": {"level": "exploration", "rule": RULE,
            "text": "histories of uploads / bundle deletes / squashes over 1-3 repositories (prefix-related names) in one or two contexts sharing one blob bucket with heavy dedup; hours of simulated time; reverse-index build with the real pebble KV, chunk sizes 1..500000, the 5-minute uploader driven by stalled calls, then delete-unused, with late uploads started during the build, between both commands and during the deletion. Three fault configurations: transient errors / lost acknowledgements on index-chunk writes, list pages, reads, attribute reads and deletes; a crash of the build at a chosen write followed by a --resume run; fault-free. Oracle: whenever both commands report success, every bundle committed before the index started and every bundle uploaded after it downloads byte-identical",
            "note": "bundles committed while the index is being built are outside the statement and are not generated; late uploads never reuse content orphaned at index time in the open search (recorded finding, reproduced by a directed scenario); weak-replay: pebble and errgroup scheduling make event logs of one seed differ, violations must reproduce",
            "components": {"real": ["pkg/core purge (build, resume, delete-unused), upload/download/delete/squash", "pebble KV", "pkg/cafs"], "stub": STUB},
            "assumptions": ["all clients share one clock"]},
    "C14": {"level": "exploration", "rule": RULE,
            "text": "the fault-free configuration of the C13 world: the union of the uploaded index chunks equals exactly the set of roots and leaves referenced by the scanned bundles of all contexts, each key once, for chunk sizes 1..500000 and with stalled calls making the 5-minute uploader fire mid-scan; after delete-unused every blob older than the index and unreferenced is gone and every other blob is kept, and all bundles download. A second scenario runs two or three whole purge cycles (build, delete-unused) with uploads and bundle deletions in between, every command in the same local work directory (datamon's default) or in fresh ones: after each cycle the index is exact, exactly the unreferenced old blobs are gone, every bundle downloads. Lock: 2..5 concurrent PurgeLock under sampled interleavings (optionally one forced): exactly one succeeds, none while held, exactly one after PurgeUnlock",
            "note": "trusts simstore timestamps (object Updated time = simulated clock)",
            "components": {"real": ["pkg/core purge + lock", "pebble KV"], "stub": STUB},
            "assumptions": []},
    "C12": {"level": "exploration", "rule": RULE,
            "text": "the real diamond implementation driven through sampled interleavings of 1-3 split ids x up to 3 runs each (concurrent second runs, crashes at a chosen write and re-runs), an early committer racing the uploads, a committer crashed before its bundle descriptor and retried, and a canceller racing the commit. Oracles: at most one bundle.yaml per diamond; a commit that reports success is the one the terminal descriptor records (state done, its bundle); commits/new splits refused once the diamond is terminal; a done split cannot be rerun; progress: an uninterrupted run that had its split id for itself completes, an uninterrupted commit of complete splits succeeds unless a cancel got in first, a cancel that reports success is recorded; the bundle is exactly the merge (C11 oracle) of the done generation of every split whose split-done landed before the winning commit was invoked (those landing during it may or may not be in). Two recorded findings (two bundles after concurrent commits / after a commit that died past its bundle descriptor is retried) are reproduced by directed scenarios and excluded from the open search",
            "note": "decided by simulation of the implementation only; the exhaustive protocol model the quantifier also mentions is model checking, outside this technique family (DESIGN §6 C12)",
            "components": {"real": ["pkg/core diamond/split/commit/cancel/list"], "stub": STUB},
            "assumptions": ["at most one committer alive per diamond in the open search", "no commit retry once a bundle descriptor of the diamond has landed"]},
    "C11": {"level": "exploration", "rule": RULE,
            "text": "1..8 splits over 6 shared paths with contents from a 3-value alphabet (forcing identical duplicates) are uploaded by separate clients at distinct simulated times (some concurrently); the diamond is cloned object-for-object and committed six times (conflicts x2, ignore, checkpoints x2, forbid), each time with the arrival order of the split file lists chosen by the scheduler among all parked index-file reads. Oracle computed from the stored split entries only: latest upload time wins per path, every distinct losing version kept under the split that uploaded it, identical contents are no conflicts, no side paths in ignore mode, forbid fails iff two splits differ on a path, flags consistent, same-mode commits identical (order independence), main tree identical across modes, single-split diamond == plain upload. A second scenario enumerates, for 2..4 splits, every arrival order of the split file lists (2, 6 or 24 orders, imposed on the scheduler instead of sampled) in a conflict-keeping mode and in forbid mode: each order gives the oracle's merge, all give the same bundle / the same refusal",
            "note": "exact ties of upload stamps between different contents are accepted either way; trusts simstore",
            "components": {"real": ["pkg/core diamond/split/commit/index", "pkg/cafs", "pkg/model"], "stub": STUB},
            "assumptions": ["tiny files, default or small leaf size"]},
    "C10": {"level": "fault_enumeration", "rule": RULE + "; leftovers are produced by real uploads killed at a tape-chosen write before the descriptor",
            "text": "histories of 0..40 tiny committed bundles with semver / non-semver labels and leftovers of uploads crashed at chosen store writes (also as the newest object of the repository) and bundles of long-lived writers (descriptor built early, committed after younger bundles: newest by id, not by descriptor time), squashed with retain-N 1..5 x {none, retain-tags, retain-semver-tags}; a second configuration crashes the squash itself at a chosen write and re-runs it. Oracle: the visible bundles are exactly the last N committed plus the labelled ones per option, each downloading to its content, labels exactly those of kept bundles, the most recent committed bundle always kept, the neighbouring repository byte-identical",
            "note": "what happens to leftovers themselves is not asserted (they are not bundles); trusts simstore",
            "components": {"real": ["pkg/core squash/delete/list/labels/upload/download"], "stub": STUB},
            "assumptions": ["label names are chosen unambiguously semver or not"]},
    "C09": {"level": "exploration", "rule": RULE,
            "text": "(a) 2..5 clients create the same repository name concurrently under sampled orders of their create-if-absent writes (next to repositories whose names are prefixes/extensions): exactly one succeeds and the descriptor is the winner's; (b) delete / rename / delete-files on one of 2-3 repositories with prefix-related names, overlapping content and labels, with a concurrent reader of another repository: afterwards the target has no object left (delete), or the same bundle ids, files and labels under the new name and nothing under the old (rename), or every bundle downloads to its previous files minus the deleted paths (delete-files); every byte of every other repository, of the blob store and of the label store is unchanged (backend snapshot diff)",
            "note": "trusts simstore; histories built with real uploads and label sets",
            "components": {"real": ["pkg/core repo create/delete/rename/delete-files/list/download", "pkg/cafs"], "stub": STUB},
            "assumptions": ["histories of completed operations only (no leftovers)", "bundles with more than one index file (1001 files) only in the thorough tier"]},
    "C08": {"level": "exploration", "rule": RULE,
            "text": "(a) seeded histories of set (also through prebuilt / reused Label values) / overwrite / delete / get / list (ListLabels and ListLabelsApply) / prefix-filtered list / list of versions (versioned label store: every assignment since the label was created, in order) over 2-3 repositories with prefix-related names and label names from the documented alphabet plus hostile ones, checked step by step against a map model, with the acceptance rule (an accepted name must resolve and every listing must still work) and the per-event invariant that a label operation writes only its own label object and never the metadata store; (b) 2-3 clients running set/get/delete on one label concurrently under sampled interleavings, now and then also listing the repository's labels (a successful listing is a read of the label and never shows it bound to no bundle), the recorded history (event-sequence stamps) checked for linearizability against a register-with-delete model with porcupine",
            "note": "porcupine 'unknown' (time-out) is counted, never reported; trusts simstore (optionally with object versioning)",
            "components": {"real": ["pkg/core label set/get/delete/list", "pkg/model label paths"], "stub": STUB + ["bundles are seeded descriptors (labels never read bundle content)"]},
            "assumptions": ["histories of at most 10 steps, 3 clients x 4 operations"]},
    "C07": {"level": "exploration", "rule": RULE,
            "text": "seeded exploration of metadata populations (1-5 repositories with prefix-related names, 0..3000 bundles incl. leftovers of interrupted uploads, labels, diamonds with 0..150 splits - KSUID ids or user-chosen ids such as split-NNN, diamond-NNN, bundle-files-NNN - whose generations hold 0..60 index files, abandoned generations) listed through List*/List*Apply with page sizes 1..2048, list concurrency 1..32, short pages and (separately) transient store errors; every listing is compared with the model: each object once, nothing foreign, bundles ascending by id, diamonds and splits by start time",
            "note": "objects are seeded with the real yaml.Marshal(model.*) at the real model.GetArchivePath* keys; repos/labels order is not asserted (usage docs state none); trusts simstore's listing contract (lexicographic, exact prefix, token = next key)",
            "components": {"real": ["pkg/core keys/list for repos, bundles, labels, diamonds, splits", "pkg/model paths"], "stub": STUB},
            "assumptions": ["diamonds/splits are created at least one second apart and user-chosen split ids are numbered in creation order, so that key order and start-time order agree (the disagreement case is the recorded finding C07/order/key-order-across-pages, reproduced by a directed scenario)", "3000-bundle populations only in the thorough tier"]},
    "C06": {"level": "fault_enumeration", "rule": RULE + "; crash points are store writes of the target operation, each tried with the crash before and after the write lands",
            "text": "crash-point fault injection: inside histories of 0..3 committed bundles and labels, a target upload / label set / diamond commit is killed at a tape-chosen store write (before or after it lands), optionally next to an unharmed concurrent uploader; a fresh observer then lists, resolves latest, lists labels and downloads every visible bundle, and a fresh client retries. The same interruptions are also injected as store errors (the write fails before landing, or lands and reports a failure) with the process staying alive: whatever the operation then reports, a bundle may only be visible if it is complete, a reported success is a committed bundle, and a commit that reports success has recorded the diamond as done. The enumerated scenario walks every write of one small upload x {crash before, crash after, error before, error after landing}. Per-event invariant: nothing under bundles/{repo}/{id}/ is written once its bundle.yaml exists",
            "note": "a crashed client's later calls fail with no effect (DESIGN §2); only what landed in simstore survives; trusts simstore",
            "components": {"real": ["pkg/core upload/list/latest/labels/download/diamond commit", "pkg/cafs", "pkg/storage/localfs"], "stub": STUB},
            "assumptions": ["histories of at most 3 prior bundles", "one crash per run"]},
    "C04": {"level": "exploration", "rule": RULE,
            "text": "seeded exploration of trees (0..2500 files, hostile names, nested dirs, sizes 0..3 leaves, duplicated contents, generated-path decoys and look-alikes) x upload modes (whole tree / explicit key lists with missing keys and skip-missing) x leaf sizes x upload/download/file-list concurrency, with the interleaving of the <=20 parallel file uploads, their leaf flushes and a concurrent unrelated uploader chosen by the tape; oracle: entries one-to-one with the files (size, BLAKE2b tree key), full / filtered / single-file download byte-identical, only .datamon metadata besides; one more configuration injects a single transient store error early in the upload of a 1001..2100-file tree: the upload either fails and shows no bundle, or reports success and the bundle is the whole tree",
            "note": "local disks are afero MemMapFs behind localfs (pass-through, not scheduled) in this scenario; trusts simstore",
            "components": {"real": ["pkg/core upload/download/list", "pkg/cafs", "pkg/model", "pkg/storage/localfs"], "stub": STUB},
            "assumptions": ["trees > 12 files use tiny files", "2000+ file trees only in the thorough tier"]},
    "C03": {"level": "fault_enumeration", "rule": RULE + "; the rot-enumerated scenario enumerates, per small object, every truncation length, one bit flip per byte, the deletion and every leaf-for-leaf replacement of every blob (count in probes.enumerated-corruptions)",
            "text": "bit-rot fault injection at rest: for objects of 1..6 leaves one blob (leaf or root) is flipped, truncated, extended, deleted, swapped with another leaf of the same or another object, or the root's key list is dropped/duplicated/reordered; then the object is read through Read, ReadAt, WriteTo(plain) and WriteTo(io.WriterAt) with cold and warm caches, and through a full bundle download; any call that reports success must have delivered exactly the stored bytes, and a failed WriteTo(io.WriterAt) or bundle download must not have written altered bytes into its destination (what it wrote equals the stored bytes at those offsets). For small objects the single-blob corruption classes are enumerated completely",
            "note": "a streaming sequential Read is judged as a whole (bytes handed out before the error of the same leaf are not counted as accepted); trusts simstore",
            "components": {"real": ["pkg/cafs reader/hasher", "pkg/core bundle download", "pkg/storage/localfs"], "stub": STUB},
            "assumptions": ["hash verification left at its default (on)", "one damaged blob per run"]},
    "C02": {"level": "exploration", "rule": RULE,
            "text": "seeded exploration of histories of overlapping Puts (identical contents, shared leaves, prefixes, swapped leaves) by 1-3 clients with 1-16 parallel flushes each into one blob bucket, under all sampled interleavings of their GetAttr/Put pairs, plus a configuration where an earlier uploader leaves torn/empty blobs; keys compared with an independent RFC 7693 BLAKE2b tree implementation (itself cross-checked against Python hashlib at setup); per-event invariant: no blob is ever written with bytes other than those its key stands for; at the moment a Put returns success every blob of its content is in the store; a configuration fails one blob write of a Put with a store error and repeats the Put through the same Fs",
            "note": "trusts the harness BLAKE2b (cross-checked against hashlib and against cafs at setup) and simstore; sampled, not exhaustive",
            "components": {"real": ["pkg/cafs writer/hasher/check_blob"], "stub": STUB},
            "assumptions": ["leaf sizes 64 B..64 KiB in this scenario (C01 covers the large ones)", "torn-write repair is only asserted for stores that report CRC32C (as GCS does)"]},
    "C01": {"level": "exploration", "rule": RULE,
            "components": {"real": ["pkg/cafs writer/reader/hasher/freelists/LRU/prefetch"], "stub": STUB},
            "text": "seeded exploration of (content length x leaf size x source chunking x flush concurrency x read programs x prefetch/cache settings x interleavings of leaf Gets among concurrent readers and prefetchers); read programs mix sequential Read, ReadAt, WriteTo(plain / io.WriterAt), several ReadAt calls on one reader, and a sequential reader that pauses in mid-stream while ReadAt calls go through the same cafs (shared leaf cache and buffer pool, 1..8 buffers); every returned byte compared with the source; one configuration switches on the in-memory yield points compiled into pkg/cafs (build tag verif) so that a reader holding a pinned leaf buffer can be overtaken by other readers' cache insertions and evictions; upload payloads are read when a Put lands, not when it is issued (a buffer recycled under an upload in flight is stored recycled); separate configuration with transient Get failures where a read may fail but never return other bytes",
            "note": "trusts simstore as a faithful GCS-contract model and the Go runtime; sampled, not exhaustive",
            "assumptions": ["object store behaves per the GCS contract modelled by simstore", "interleavings are controlled at store-call granularity",
                            "objects <= ~6 leaves; 5 MiB leaves only in the thorough tier"]},
}

NOT_APPLICABLE = [
    {"property_id": "C20", "reason": "pure functions of their inputs (path builders/parsers, regexps, YAML marshalling): no schedule, clock, I/O, fault or interleaving for a simulator to control (DESIGN.md §7)"},
    {"property_id": "C21", "reason": "pure deterministic encode function checked against a decoder; nothing to schedule or fault (DESIGN.md §7)"},
    {"property_id": "C22", "reason": "in-memory radix-tree structure not wired to any I/O, statement about sequential write histories only; input generation, not simulation (DESIGN.md §7)"},
]
PENDING = ["C02", "C03", "C04", "C05", "C06", "C07", "C08", "C09", "C10", "C11", "C12", "C13", "C14", "C15", "C16", "C17", "C18", "C19"]
for _p in PENDING:
    if _p not in PLAN:
        NOT_APPLICABLE.append({"property_id": _p, "reason": "claimed by design (DESIGN.md §6) but its check is not registered yet in this commit (work in progress)"})

"""setup_cmd: build the simulator, cross-check the reference models, prove determinism across processes."""
import collections, hashlib, json, os, subprocess, sys, tempfile, time

VERIF = os.path.dirname(os.path.abspath(__file__))


def blake_leaf(data, leaf, off, last):
    return hashlib.blake2b(data, digest_size=64, fanout=0, depth=2, leaf_size=leaf, node_offset=off, node_depth=0, inner_size=64, last_node=last).digest()


def tree(content, leaf):
    full = len(content) // leaf
    leaves = [blake_leaf(content[i * leaf:(i + 1) * leaf], leaf, i + 1, False) for i in range(full)]
    rest = content[full * leaf:]
    if rest:
        leaves.append(blake_leaf(rest, leaf, full, True))
    root = hashlib.blake2b(b"".join(leaves), digest_size=64, fanout=0, depth=2, leaf_size=leaf, node_offset=0, node_depth=1, inner_size=64, last_node=True).digest()
    return root.hex(), [l.hex() for l in leaves]


def main(build, run_worker, read_records):
    from plan import PLAN
    t0 = time.time()
    binp = build()
    build(race=True)  # warms the build cache for C15's race-stress mode
    env = dict(os.environ, GOFLAGS="-mod=mod", GOPROXY="off", GOSUMDB="off", GOTOOLCHAIN="local")
    tmp = tempfile.mkdtemp(prefix="verif-setup-")
    # 1. reference BLAKE2b tree model vs Python hashlib, and vs the keys the real cafs writer produces
    vec = os.path.join(tmp, "vectors.jsonl")
    r = subprocess.run([binp, "-test.run", "^TestModelSelf", "-test.count", "1"], env=dict(env, VERIF_VECTORS=vec), cwd=os.path.join(VERIF, "sim"), capture_output=True, text=True)
    if r.returncode != 0:
        print("model self-tests failed:\n" + r.stdout + r.stderr, file=sys.stderr)
        return 2
    n = 0
    for l in open(vec):
        v = json.loads(l)
        content = bytes(((i * 31 + v["seed"]) & 0xff) for i in range(v["len"]))
        root, leaves = tree(content, v["leaf"])
        if root != v["root"] or leaves != v["leaves"]:
            print("refmodel.TreeKeys disagrees with Python hashlib for leaf=%d len=%d" % (v["leaf"], v["len"]), file=sys.stderr)
            return 2
        n += 1
    print("blake2 tree model: %d vectors agree with hashlib and with cafs" % n, file=sys.stderr)
    # 2. determinism across fresh processes and GOMAXPROCS values
    bad = 0
    checked = 0
    for prop in sorted(PLAN):
        hashes = collections.defaultdict(set)
        strict = {}
        for i, gmp in enumerate([1, 4, 16, 4]):
            out = os.path.join(tmp, "det-%s-%d.jsonl" % (prop, i))
            rc = run_worker(binp, {"VERIF_PROP": prop, "VERIF_TIER": "quick", "VERIF_SEED": 424242, "VERIF_FROM": 0, "VERIF_N": 10,
                                   "VERIF_DET_EVERY": 0, "GOMAXPROCS": gmp, "VERIF_REPLAY_DIR": tmp, "VERIF_SHRINK_S": 0, "VERIF_WATCHDOG_S": 120}, out, 900)
            for rec in read_records(out):
                if rec.get("kind") == "run":
                    hashes[rec["k"]].add(rec["event_hash"])
                    strict[rec["k"]] = rec.get("strict")
        for k, hs in hashes.items():
            if strict.get(k):
                checked += 1
                if len(hs) != 1:
                    bad += 1
                    print("DETERMINISM: %s k=%d gives %d different event logs across processes" % (prop, k, len(hs)), file=sys.stderr)
    print("determinism: %d strict runs x 4 processes (GOMAXPROCS 1/4/16/4) byte-identical, %d mismatches; setup %.0fs" % (checked, bad, time.time() - t0), file=sys.stderr)
    return 2 if bad else 0

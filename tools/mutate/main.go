// mutate lists or applies single-point source mutations of one Go file (go/ast based).
//
//	mutate -list file.go                 one line per mutation point: index, line, operator, description
//	mutate -apply N file.go > out.go     the file with mutation N applied
//
// Operators: binary operator swaps (== != < <= > >= && || + -), negated if conditions, dropped error checks
// (if err != nil { return ... } -> _ = err), deleted statements (calls, plain assignments, inc/dec, send),
// continue <-> break, true <-> false, integer literals n -> n+1 (0 -> 1, 1 -> 0).
// Logging and metrics statements are never mutated (equivalent mutants).
package main

import (
	"bytes"
	"flag"
	"fmt"
	"go/ast"
	"go/format"
	"go/parser"
	"go/token"
	"os"
	"strconv"
	"strings"
)

type point struct {
	line  int
	op    string
	desc  string
	apply func()
}

var swaps = map[token.Token]token.Token{token.EQL: token.NEQ, token.NEQ: token.EQL, token.LSS: token.LEQ, token.LEQ: token.LSS,
	token.GTR: token.GEQ, token.GEQ: token.GTR, token.LAND: token.LOR, token.LOR: token.LAND, token.ADD: token.SUB, token.SUB: token.ADD}

func src(fset *token.FileSet, n ast.Node) string {
	var b bytes.Buffer
	_ = format.Node(&b, fset, n)
	s := strings.Join(strings.Fields(b.String()), " ")
	if len(s) > 90 {
		s = s[:90] + "…"
	}
	return s
}

func isNoise(s string) bool {
	for _, w := range []string{".Debug(", ".Info(", ".Warn(", ".Error(", "etrics", ".m.", "logger", "Logger", "zap.", ".l.", "usage.", "Usage"} {
		if strings.Contains(s, w) {
			return true
		}
	}
	return false
}

func main() {
	list := flag.Bool("list", false, "list mutation points")
	apply := flag.Int("apply", -1, "apply mutation N")
	flag.Parse()
	fset := token.NewFileSet()
	f, err := parser.ParseFile(fset, flag.Arg(0), nil, parser.ParseComments)
	if err != nil {
		fmt.Fprintln(os.Stderr, err)
		os.Exit(2)
	}
	var pts []point
	add := func(n ast.Node, op, desc string, fn func()) {
		pts = append(pts, point{fset.Position(n.Pos()).Line, op, desc, fn})
	}
	var fn string
	var visitBlock func(list []ast.Stmt)
	visitBlock = func(list []ast.Stmt) {
		for i, st := range list {
			i, st := i, st
			s := src(fset, st)
			switch x := st.(type) {
			case *ast.ExprStmt:
				if _, ok := x.X.(*ast.CallExpr); ok && !isNoise(s) && !strings.HasPrefix(s, "panic(") {
					add(st, "del-call", s, func() { list[i] = &ast.EmptyStmt{} })
				}
			case *ast.AssignStmt:
				if x.Tok != token.DEFINE && !isNoise(s) {
					add(st, "del-assign", s, func() { list[i] = &ast.EmptyStmt{} })
				}
			case *ast.IncDecStmt:
				add(st, "del-incdec", s, func() { list[i] = &ast.EmptyStmt{} })
			case *ast.SendStmt:
				if !isNoise(s) {
					add(st, "del-send", s, func() { list[i] = &ast.EmptyStmt{} })
				}
			case *ast.IfStmt:
				if be, ok := x.Cond.(*ast.BinaryExpr); ok && x.Init == nil && x.Else == nil && be.Op == token.NEQ {
					if id, ok := be.X.(*ast.Ident); ok && strings.HasPrefix(strings.ToLower(id.Name), "err") {
						if nl, ok := be.Y.(*ast.Ident); ok && nl.Name == "nil" && len(x.Body.List) > 0 {
							if _, ok := x.Body.List[len(x.Body.List)-1].(*ast.ReturnStmt); ok {
								name := id.Name
								add(st, "drop-errcheck", s, func() {
									list[i] = &ast.AssignStmt{Lhs: []ast.Expr{ast.NewIdent("_")}, Tok: token.ASSIGN, Rhs: []ast.Expr{ast.NewIdent(name)}}
								})
							}
						}
					}
				}
			}
		}
	}
	ast.Inspect(f, func(n ast.Node) bool {
		switch x := n.(type) {
		case *ast.FuncDecl:
			fn = x.Name.Name
			if fn == "String" || fn == "Error" || strings.HasPrefix(fn, "With") && x.Recv == nil && false {
				return false
			}
		case *ast.BlockStmt:
			visitBlock(x.List)
		case *ast.CaseClause:
			visitBlock(x.Body)
		case *ast.CommClause:
			visitBlock(x.Body)
		case *ast.BinaryExpr:
			if to, ok := swaps[x.Op]; ok && !isNoise(src(fset, x)) {
				from := x.Op
				add(x, "swap "+from.String()+"->"+to.String(), src(fset, x), func() { x.Op = to })
			}
		case *ast.IfStmt:
			if _, isBin := x.Cond.(*ast.BinaryExpr); !isBin && !isNoise(src(fset, x.Cond)) {
				add(x, "negate-if", src(fset, x.Cond), func() { x.Cond = &ast.UnaryExpr{Op: token.NOT, X: &ast.ParenExpr{X: x.Cond}} })
			}
		case *ast.BranchStmt:
			if x.Label == nil && (x.Tok == token.CONTINUE || x.Tok == token.BREAK) {
				to := token.BREAK
				if x.Tok == token.BREAK {
					to = token.CONTINUE
				}
				add(x, "branch "+x.Tok.String()+"->"+to.String(), x.Tok.String(), func() { x.Tok = to })
			}
		case *ast.Ident:
			if x.Name == "true" || x.Name == "false" {
				to := "true"
				if x.Name == "true" {
					to = "false"
				}
				add(x, "bool "+x.Name+"->"+to, x.Name, func() { x.Name = to })
			}
		case *ast.BasicLit:
			if x.Kind == token.INT {
				if v, err := strconv.ParseInt(x.Value, 0, 64); err == nil && v < 1<<30 {
					to := v + 1
					if v == 1 {
						to = 0
					}
					add(x, "int "+x.Value+"->"+strconv.FormatInt(to, 10), x.Value, func() { x.Value = strconv.FormatInt(to, 10) })
				}
			}
		}
		return true
	})
	_ = fn
	if *list {
		for i, p := range pts {
			fmt.Printf("%d\t%d\t%s\t%s\n", i, p.line, p.op, p.desc)
		}
		return
	}
	if *apply < 0 || *apply >= len(pts) {
		fmt.Fprintln(os.Stderr, "no such mutation")
		os.Exit(2)
	}
	pts[*apply].apply()
	if err := format.Node(os.Stdout, fset, f); err != nil {
		fmt.Fprintln(os.Stderr, err)
		os.Exit(2)
	}
}

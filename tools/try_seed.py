#!/usr/bin/env python3
"""Applies a seeded change to /repo, runs the quick (and optionally thorough) check of the given properties, reverts.
usage: try_seed.py <seed-dir> <Cxx> [<Cyy> ...] [--thorough] [--runs N] [--wall S]"""
import subprocess, sys, os, json, time
seed = sys.argv[1]
props = [a for a in sys.argv[2:] if a.startswith("C")]
tier = "thorough" if "--thorough" in sys.argv else "quick"
extra = []
for i, a in enumerate(sys.argv):
    if a in ("--runs", "--wall", "--scenario"):
        extra += [a, sys.argv[i + 1]]
patch = os.path.join(seed, "patch.diff")
REPO = "/repo"
env = dict(os.environ)
if "--worktree" in sys.argv:
    # experiment in a scratch worktree (does not disturb checks running against /repo)
    import tempfile
    REPO = tempfile.mkdtemp(prefix="seedwt-", dir="/tmp")
    os.rmdir(REPO)
    subprocess.run(["git", "-C", "/repo", "worktree", "add", "-q", "--detach", REPO, "HEAD"], check=True)
    env["VERIF_REPO"] = REPO
st = subprocess.run(["git", "-C", REPO, "status", "--porcelain"], capture_output=True, text=True).stdout.strip()
if st:
    sys.exit(REPO + " is not clean:\n" + st)
r = subprocess.run(["git", "-C", REPO, "apply", "--whitespace=nowarn", patch], capture_output=True, text=True)
if r.returncode != 0:
    sys.exit("patch does not apply: " + r.stderr)
res = {}
try:
    for p in props:
        t0 = time.time()
        for attempt in range(4):
            c = subprocess.run(["/verif/check", p, "--tier", tier, "--no-evidence"] + extra, capture_output=True, text=True, cwd="/verif", env=env)
            if c.returncode == 2 and "BUILD FAILED" in (c.stdout + c.stderr) and attempt < 3:
                time.sleep(120)  # /verif/sim was being edited: try again
                continue
            break
        alll = (c.stdout + c.stderr).splitlines()
        viol = [l for l in alll if l.startswith("violation ")][:6] + [l for l in alll if l.startswith("VIOLATION")][:2] + [l for l in alll if "HARNESS ERROR" in l or "DETERMINISM" in l or "BUILD FAILED" in l][:3]
        res[p] = {"exit": c.returncode, "wall_s": round(time.time() - t0, 1), "lines": viol[:11]}
        print(p, "exit", c.returncode, "in %.0fs" % (time.time() - t0))
        for l in viol[:11]:
            print("   ", l[:400])
finally:
    if REPO == "/repo":
        subprocess.run(["git", "-C", "/repo", "checkout", "--", "."])
    else:
        subprocess.run(["git", "-C", "/repo", "worktree", "remove", "--force", REPO])
        import glob
        for f in glob.glob("/verif/.build/*" + __import__("hashlib").sha1(REPO.encode()).hexdigest()[:8] + "*"):
            os.remove(f)
print(json.dumps(res))

#!/usr/bin/env python3
"""Applies a seeded change to /repo, runs the quick (and optionally thorough) check of the given properties, reverts.
usage: try_seed.py <seed-dir> <Cxx> [<Cyy> ...] [--thorough] [--runs N] [--wall S]"""
import subprocess, sys, os, json, time
seed = sys.argv[1]
props = [a for a in sys.argv[2:] if a.startswith("C")]
tier = "thorough" if "--thorough" in sys.argv else "quick"
extra = []
for i, a in enumerate(sys.argv):
    if a in ("--runs", "--wall", "--scenario"):
        extra += [a, sys.argv[i + 1]]
patch = os.path.join(seed, "patch.diff")
st = subprocess.run(["git", "-C", "/repo", "status", "--porcelain"], capture_output=True, text=True).stdout.strip()
if st:
    sys.exit("/repo is not clean:\n" + st)
r = subprocess.run(["git", "-C", "/repo", "apply", "--whitespace=nowarn", patch], capture_output=True, text=True)
if r.returncode != 0:
    sys.exit("patch does not apply: " + r.stderr)
res = {}
try:
    for p in props:
        t0 = time.time()
        c = subprocess.run(["/verif/check", p, "--tier", tier, "--no-evidence"] + extra, capture_output=True, text=True, cwd="/verif")
        viol = [l for l in (c.stdout + c.stderr).splitlines() if l.startswith("VIOLATION") or l.startswith("violation ") or "HARNESS ERROR" in l or "DETERMINISM" in l or "BUILD FAILED" in l]
        res[p] = {"exit": c.returncode, "wall_s": round(time.time() - t0, 1), "lines": viol[:8]}
        print(p, "exit", c.returncode, "in %.0fs" % (time.time() - t0))
        for l in viol[:8]:
            print("   ", l[:400])
finally:
    subprocess.run(["git", "-C", "/repo", "checkout", "--", "."])
    subprocess.run(["git", "-C", "/repo", "clean", "-fdq"])
print(json.dumps(res))

#!/bin/bash
# verify_seed.sh <seed-dir> <demo-dest-relative-dir> <go test args...>
# In a fresh scratch worktree: build + existing tests with the patch, demo with and without the patch.
set -u
SEED=$1; shift
export GOFLAGS=-mod=mod GOPROXY=off GOSUMDB=off
WT=$(mktemp -d /tmp/verify-seed-XXXX)
git -C /repo worktree add -q --detach "$WT" HEAD || exit 2
cd "$WT"
PKGS="./internal/... ./pkg/cafs/ ./pkg/context/ ./pkg/errors/ ./pkg/filetracker/ ./pkg/fuse/ ./pkg/metrics/ ./pkg/model/ ./pkg/sidecar/... ./pkg/storage/localfs/ ./pkg/web/ ./pkg/wal/"
echo "== demo WITHOUT the change"
"$@" > /tmp/verify-demo-without.log 2>&1; echo "demo exit (unchanged): $?"; tail -3 /tmp/verify-demo-without.log
git apply --whitespace=nowarn "$SEED/patch.diff" || { echo "PATCH DOES NOT APPLY"; }
echo "== build"; go build ./... && echo build ok
echo "== existing tests with the change"
go test -vet=off -count=1 $PKGS 2>&1 | grep -v "^ok\|no test files" | grep -v "TestWAL_GetToken\|could not find default credentials\|dialing:\|Error Trace\|Error:\|Test:\|wal_test.go\|^FAIL$\|FAIL.*pkg/wal\|^\s*$\|---" | head -10
echo "== demo WITH the change"
"$@" > /tmp/verify-demo-with.log 2>&1; echo "demo exit (changed): $?"; tail -5 /tmp/verify-demo-with.log
cd /; git -C /repo worktree remove --force "$WT"

#!/bin/bash
# verify_seed.sh <seed-out-dir> <demo-src-file-or-dir> <dest-dir-in-worktree> <go test package path>
# In a fresh scratch worktree: demo without the patch, then build + existing tests + demo with the patch.
SEED=$1; DEMO=$2; DEST=$3; PKG=$4
export GOFLAGS=-mod=mod GOPROXY=off GOSUMDB=off
WT=$(mktemp -d /tmp/verify-seed-XXXX); rmdir "$WT"
git -C /repo worktree add -q --detach "$WT" HEAD || exit 2
cd "$WT"
mkdir -p "$DEST"; cp -r $DEMO "$DEST"/
PKGS="./internal/... ./pkg/cafs/ ./pkg/context/ ./pkg/errors/ ./pkg/filetracker/ ./pkg/fuse/ ./pkg/metrics/ ./pkg/model/ ./pkg/sidecar/... ./pkg/storage/localfs/ ./pkg/web/ ./pkg/wal/"
go test -vet=off -count=1 $PKG > /tmp/verify-without.log 2>&1; echo "demo exit WITHOUT change: $? ($(tail -1 /tmp/verify-without.log))"
git apply --whitespace=nowarn "$SEED/patch.diff" || echo "PATCH DOES NOT APPLY"
go build ./... && echo "build ok"
go test -vet=off -count=1 $PKGS 2>&1 | grep "^FAIL\|^---\|^ok" | grep -v "^ok" | grep -v "TestWAL_GetToken\|pkg/wal" | head; echo "(existing tests done; only pkg/wal TestWAL_GetToken may fail)"
go test -vet=off -count=1 $PKG > /tmp/verify-with.log 2>&1; echo "demo exit WITH change: $? ($(grep -m3 -- '--- FAIL\|FAIL' /tmp/verify-with.log | tr '\n' ' '))"
cd /; git -C /repo worktree remove --force "$WT"

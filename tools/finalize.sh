#!/bin/bash
# Regenerates everything that must come from a run in /verif against /repo itself: the 19 quick evidences, MANIFEST.json,
# the kept replay files of the known findings, the generated tables of DESIGN.md; validates; removes scratch binaries.
cd /verif || exit 2
export GOFLAGS=-mod=mod GOPROXY=off GOSUMDB=off GOTOOLCHAIN=local
rm -f replays/*.json
rc=0
for p in C01 C02 C03 C04 C05 C06 C07 C08 C09 C10 C11 C12 C13 C14 C15 C16 C17 C18 C19; do
  ./check $p --tier quick > /tmp/finalize-$p.log 2>&1; e=$?
  tail -1 /tmp/finalize-$p.log
  if [ $e -ne 0 ] || grep -q "^VIOLATION" /tmp/finalize-$p.log; then echo "!!! $p exit $e"; rc=1; fi
done
python3 gen_manifest.py
tools/refresh_known_replays.sh | tail -7 || rc=1
python3 tools/seed_matrix.py
python3 tools/mutants_summary.py > /dev/null
python3-vt - <<'P' || rc=1
import json, jsonschema, glob
m = json.load(open('/verif/MANIFEST.json')); jsonschema.validate(m, json.load(open('/root/.vp/MANIFEST.schema.json')))
s = json.load(open('/root/.vp/EVIDENCE.schema.json'))
for f in sorted(glob.glob('/verif/evidence/*.json')):
    jsonschema.validate(json.load(open(f)), s)
print("manifest and", len(glob.glob('/verif/evidence/*.json')), "evidence files validate")
P
rm -f replays/*.json
ls .build | grep -E '\.[0-9a-f]{8}' | sed 's|^|.build/|' | xargs -r rm -f
exit $rc

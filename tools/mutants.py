#!/usr/bin/env python3
"""mutants.py <Cxx> [--n N] [--seed S] [--slots K] [--workers W] [--wall S]
Sensitivity measurement (not a check): samples N single-point source mutations (tools/mutate) of the files the property is
anchored in, restricted to statements the simulated runs execute (tools/coverage.py profile under /tmp/cov/<Cxx>), and for
each one, in a scratch worktree under /tmp/mut: builds datamon, runs the existing tests of the mutated package, then runs
the property's quick check against the worktree (VERIF_REPO). Appends one JSON line per mutant to /verif/mutants/<Cxx>.jsonl:
status = nocompile | killed-by-existing-tests | caught (violation classes) | survived | harness-error."""
import collections, hashlib, json, os, random, re, subprocess, sys, threading, time
V = os.path.dirname(os.path.dirname(os.path.abspath(__file__)))
args = sys.argv[1:]
props = [a for a in args if re.fullmatch(r"C\d\d", a)]
opt = lambda k, d: args[args.index(k) + 1] if k in args else d
N, SEED, SLOTS, WORKERS, WALL = int(opt("--n", "20")), int(opt("--seed", "1")), int(opt("--slots", "3")), opt("--workers", "5"), opt("--wall", "60")
SLOT_BASE = int(opt("--slot-base", "0"))
RETRY = "--retry-survivors" in args  # evaluate again the mutants recorded as survived / harness-error (after a check was strengthened)
MUT = "/tmp/mut/mutate"
env = dict(os.environ, GOFLAGS="-mod=mod", GOPROXY="off", GOSUMDB="off", GOTOOLCHAIN="local")
TESTED = {"pkg/cafs": "./pkg/cafs/", "pkg/storage/localfs": "./pkg/storage/localfs/", "pkg/fuse": "./pkg/fuse/", "pkg/model": "./pkg/model/",
          "pkg/wal": "-run TestNewWAL1|TestWAL_Add|TestWAL_ListEntries ./pkg/wal/", "pkg/context": "./pkg/context/", "pkg/errors": "./pkg/errors/"}
os.makedirs(os.path.join(V, "mutants"), exist_ok=True)
if not os.path.exists(MUT):
    os.makedirs("/tmp/mut", exist_ok=True)
    subprocess.run(["go1.26.8", "build", "-o", MUT, "main.go"], cwd=os.path.join(V, "tools/mutate"), env=env, check=True)


def covered_lines(prop):
    """file -> set of covered line numbers, from the merged profile of tools/coverage.py (None when there is no profile)"""
    p = "/tmp/cov/%s/merged.out" % prop
    if not os.path.exists(p):
        return None
    cov = collections.defaultdict(set)
    for l in open(p):
        m = re.match(r"github.com/oneconcern/datamon/(\S+):(\d+)\.\d+,(\d+)\.\d+ \d+ (\d+)$", l.strip())
        if m and int(m.group(4)) > 0:
            cov[m.group(1)].update(range(int(m.group(2)), int(m.group(3)) + 1))
    return cov


def sh(cmd, cwd, timeout=1800, e=None):
    try:
        r = subprocess.run(cmd, cwd=cwd, env=e or env, capture_output=True, text=True, timeout=timeout, shell=isinstance(cmd, str))
        return r.returncode, r.stdout + r.stderr
    except subprocess.TimeoutExpired:
        return -9, "timeout"


for prop in props:
    files = []
    for l in open(os.path.join(V, "properties.jsonl")):
        r = json.loads(l)
        if r["id"] == prop:
            files = [f for f in r["anchors"]["files"] if f.endswith(".go") and f.startswith("pkg/")]
    cov = covered_lines(prop)
    pts = []
    for f in files:
        rc, out = sh([MUT, "-list", "/repo/" + f], "/")
        for l in out.splitlines():
            i, line, op, desc = l.split("\t", 3)
            if cov is not None and int(line) not in cov.get(f, ()):
                continue
            pts.append((f, int(i), int(line), op, desc))
    done = set()
    outp = os.path.join(V, "mutants", prop + ".jsonl")
    if os.path.exists(outp):
        for l in open(outp):
            r = json.loads(l)
            if RETRY and r["status"] in ("survived", "harness-error"):
                done.discard((r["file"], r["index"]))
                continue
            done.add((r["file"], r["index"]))
    rnd = random.Random(SEED * 1000003 + int(prop[1:]))
    rnd.shuffle(pts)
    todo = [p for p in pts if (p[0], p[1]) not in done][:N]
    if RETRY:
        again = set()
        for l in open(outp):
            r = json.loads(l)
            if r["status"] in ("survived", "harness-error"):
                again.add((r["file"], r["index"]))
            else:
                again.discard((r["file"], r["index"]))
        todo = [p for p in pts if (p[0], p[1]) in again]
    print("%s: %d mutation points on covered lines of %d files, %d already evaluated, running %d" % (prop, len(pts), len(files), len(done), len(todo)), flush=True)
    lock = threading.Lock()

    def slot(si):
        wt = "/tmp/mut/wt-%d" % (si + SLOT_BASE)
        if not os.path.isdir(wt):
            subprocess.run(["git", "-C", "/repo", "worktree", "add", "-q", "--detach", wt, "HEAD"], check=True)
        while True:
            with lock:
                if not todo:
                    return
                f, idx, line, op, desc = todo.pop(0)
            t0 = time.time()
            subprocess.run(["git", "-C", wt, "checkout", "-q", "--", "."])
            subprocess.run(["git", "-C", wt, "checkout", "-q", "--detach", subprocess.run(["git", "-C", "/repo", "rev-parse", "HEAD"], capture_output=True, text=True).stdout.strip()])
            rc, src = sh([MUT, "-apply", str(idx), "/repo/" + f], "/")
            rec = {"property": prop, "file": f, "index": idx, "line": line, "operator": op, "code": desc}
            if rc != 0:
                rec["status"] = "mutator-error"
            else:
                open(os.path.join(wt, f), "w").write(src)
                pkg = os.path.dirname(f)
                rc, out = sh(["go", "build", "./pkg/...", "./cmd/..."], wt)
                if rc != 0:
                    rec["status"] = "nocompile"
                else:
                    st = "untested"
                    if pkg in TESTED:
                        rc, out = sh(["go", "test", "-vet=off", "-count=1"] + TESTED[pkg].split(), wt, timeout=900)
                        st = "pass" if rc == 0 else "fail"
                    rec["existing_tests"] = st
                    if st == "fail":
                        rec["status"] = "killed-by-existing-tests"
                    else:
                        e = dict(env, VERIF_REPO=wt, VERIF_FAST_FAIL="1", VERIF_SHRINK_S_OVERRIDE="5")
                        rc, out = sh([os.path.join(V, "check"), prop, "--tier", "quick", "--no-evidence", "--workers", WORKERS, "--wall", WALL], V, timeout=1500, e=e)
                        classes = sorted(set(re.findall(r"^violation (C\d\d/[^:]+):", out, re.M)))
                        rec["check_exit"] = rc
                        rec["classes"] = classes
                        rec["status"] = "caught" if rc == 1 and classes else ("survived" if rc == 0 else "harness-error")
                        if rec["status"] == "harness-error":
                            rec["tail"] = out[-1500:]
                        m = re.search(r"runs=(\d+)", out)
                        rec["runs"] = int(m.group(1)) if m else None
            rec["seconds"] = round(time.time() - t0)
            with lock:
                open(outp, "a").write(json.dumps(rec) + "\n")
                print("%s %s:%d [%s] %s -> %s %s" % (prop, f, line, op, desc[:60], rec["status"], rec.get("classes", "")), flush=True)

    ths = [threading.Thread(target=slot, args=(i,)) for i in range(SLOTS)]
    for t in ths:
        t.start()
    for t in ths:
        t.join()
# clean the replays written for mutants (they belong to trees that no longer exist)
for f in os.listdir(os.path.join(V, "replays")):
    if f.endswith(".json"):
        os.remove(os.path.join(V, "replays", f))

#!/usr/bin/env python3
"""Rewrites the table between the SEED-MATRIX markers of DESIGN.md from seeded/*/meta.json."""
import glob, json, os, re
V = os.path.dirname(os.path.dirname(os.path.abspath(__file__)))
rows = []
for mf in sorted(glob.glob(os.path.join(V, "seeded", "*", "meta.json"))):
    m = json.load(open(mf))
    res = m["checks_run"]["results"]
    caught = ", ".join("%s (%s)" % (c, "; ".join(x.split("/", 1)[1] for x in res[c]["violation_classes"][:3])) for c in m["caught_by"]) or "**missed**"
    missed = [c for c, r in res.items() if not r["caught"]]
    if m.get("strengthened"):
        caught += " — after strengthening: " + m["strengthened"]
    rows.append("| %s | %s | %s | %s |" % (m["id"], ", ".join("`%s`" % f for f in m["files_changed"]), m["needs_to_manifest"].replace("|", "/"), caught + (" (not by: %s)" % ", ".join(missed) if missed and m["caught_by"] else "")))
tab = "| seed | changes | needs, to manifest | caught by (violation classes) |\n|---|---|---|---|\n" + "\n".join(rows) + "\n"
p = os.path.join(V, "DESIGN.md")
s = open(p).read()
s2 = re.sub(r"(<!-- SEED-MATRIX-BEGIN -->\n).*?(<!-- SEED-MATRIX-END -->)", lambda mm: mm.group(1) + tab + mm.group(2), s, flags=re.S)
open(p, "w").write(s2)
print(len(rows), "rows")

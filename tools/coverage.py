#!/usr/bin/env python3
"""coverage.py <Cxx> [<Cyy> ...] [--tier quick|thorough] [--wall S] [--workers N]
Measurement, not a check: builds the simulation binary with statement coverage of github.com/oneconcern/datamon/pkg/...,
runs the given checks, merges the workers' profiles and writes /verif/coverage/<Cxx>.txt: per function of the files the
property is anchored in, the share of statements the simulated runs executed, and the uncovered blocks."""
import collections, glob, json, os, re, shutil, subprocess, sys
V = os.path.dirname(os.path.dirname(os.path.abspath(__file__)))
args = sys.argv[1:]
props = [a for a in args if re.fullmatch(r"C\d\d", a)]
opt = lambda k, d: args[args.index(k) + 1] if k in args else d
tier, wall, workers = opt("--tier", "quick"), opt("--wall", ""), opt("--workers", "8")
anch = {}
for l in open(os.path.join(V, "properties.jsonl")):
    r = json.loads(l)
    anch[r["id"]] = [f for f in r["anchors"]["files"] if f.endswith(".go")]
env = dict(os.environ, GOFLAGS="-mod=mod", GOPROXY="off", GOSUMDB="off", GOTOOLCHAIN="local")
os.makedirs(os.path.join(V, "coverage"), exist_ok=True)
for p in props:
    d = "/tmp/cov/" + p
    shutil.rmtree(d, ignore_errors=True)
    os.makedirs(d)
    cmd = [os.path.join(V, "check"), p, "--tier", tier, "--no-evidence", "--workers", workers] + (["--wall", wall] if wall else [])
    r = subprocess.run(cmd, env=dict(env, VERIF_COVER=d), capture_output=True, text=True, cwd=V)
    tail = [l for l in r.stderr.splitlines() if l.startswith(p + " ")]
    blocks = collections.Counter()
    stm = {}
    for f in glob.glob(d + "/*.cov"):
        for l in open(f):
            if l.startswith("mode:"):
                continue
            m = re.match(r"(\S+) (\d+) (\d+)$", l.strip())
            if m:
                blocks[m.group(1)] += int(m.group(3))
                stm[m.group(1)] = int(m.group(2))
    merged = d + "/merged.out"
    with open(merged, "w") as o:
        o.write("mode: count\n")
        for k in sorted(blocks):
            o.write("%s %d %d\n" % (k, stm[k], blocks[k]))
    fn = subprocess.run(["go1.26.8", "tool", "cover", "-func", merged], env=env, capture_output=True, text=True, cwd=os.path.join(V, "sim")).stdout
    out = ["# %s: statements of datamon executed by the simulated runs (%s tier)   %s" % (p, tier, " ".join(tail)), ""]
    files = ["github.com/oneconcern/datamon/" + f for f in anch[p]]
    tot = cov = 0
    perfile = collections.defaultdict(lambda: [0, 0])
    for k in blocks:
        f = k.split(":")[0]
        if f in files:
            perfile[f][0] += stm[k]
            perfile[f][1] += stm[k] if blocks[k] else 0
    for f in files:
        t, c = perfile[f]
        tot += t
        cov += c
        out.append("%-60s %5d / %5d statements  %5.1f%%" % (f.replace("github.com/oneconcern/datamon/", ""), c, t, 100.0 * c / t if t else 0))
    out.append("%-60s %5d / %5d statements  %5.1f%%" % ("anchored files together", cov, tot, 100.0 * cov / tot if tot else 0))
    out += ["", "## functions of the anchored files"]
    for l in fn.splitlines():
        m = re.match(r"(\S+?):(\d+):\s+(\S+)\s+([\d.]+)%", l)
        if m and m.group(1) in files:
            out.append("%6s%%  %s:%s %s" % (m.group(4), m.group(1).replace("github.com/oneconcern/datamon/", ""), m.group(2), m.group(3)))
    out += ["", "## uncovered blocks of the anchored files (file:start-end)"]
    for k in sorted(blocks, key=lambda k: (k.split(":")[0], int(re.search(r":(\d+)\.", k).group(1)))):
        if blocks[k] == 0 and k.split(":")[0] in files:
            m = re.match(r"(\S+):(\d+)\.\d+,(\d+)\.\d+", k)
            out.append("%s:%s-%s (%d stmts)" % (m.group(1).replace("github.com/oneconcern/datamon/", ""), m.group(2), m.group(3), stm[k]))
    open(os.path.join(V, "coverage", p + ".txt"), "w").write("\n".join(out) + "\n")
    print(p, "anchored statements covered: %d/%d (%.1f%%)" % (cov, tot, 100.0 * cov / tot if tot else 0), " ".join(tail))

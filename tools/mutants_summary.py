#!/usr/bin/env python3
"""Rewrites the table between the MUTANTS markers of DESIGN.md from mutants/*.jsonl (last record per mutant wins)."""
import collections, glob, json, os, re
V = os.path.dirname(os.path.dirname(os.path.abspath(__file__)))
last = {}
for f in sorted(glob.glob(os.path.join(V, "mutants", "*.jsonl"))):
    for l in open(f):
        r = json.loads(l)
        last[(r["property"], r["file"], r["index"])] = r
per = collections.defaultdict(collections.Counter)
for r in last.values():
    per[r["property"]][r["status"]] += 1
cols = ["caught", "survived", "killed-by-existing-tests", "nocompile", "harness-error"]
rows = ["| property | mutants | caught by the check | survived | killed by the existing tests | do not compile | harness error | caught / (caught + survived) |", "|---|---|---|---|---|---|---|---|"]
tot = collections.Counter()
for p in sorted(per):
    c = per[p]
    n = sum(c.values())
    tot.update(c)
    d = c["caught"] + c["survived"]
    rows.append("| %s | %d | %d | %d | %d | %d | %d | %s |" % (p, n, c["caught"], c["survived"], c["killed-by-existing-tests"], c["nocompile"], c["harness-error"], "%d%%" % round(100 * c["caught"] / d) if d else "-"))
d = tot["caught"] + tot["survived"]
rows.append("| all | %d | %d | %d | %d | %d | %d | %s |" % (sum(tot.values()), tot["caught"], tot["survived"], tot["killed-by-existing-tests"], tot["nocompile"], tot["harness-error"], "%d%%" % round(100 * tot["caught"] / d) if d else "-"))
tab = "\n".join(rows) + "\n"
p = os.path.join(V, "DESIGN.md")
s = open(p).read()
s2 = re.sub(r"(<!-- MUTANTS-BEGIN -->\n).*?(<!-- MUTANTS-END -->)", lambda m: m.group(1) + tab + m.group(2), s, flags=re.S)
open(p, "w").write(s2)
print(tab)

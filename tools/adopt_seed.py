#!/usr/bin/env python3
"""adopt_seed.py <seed-id> <demo-dest-dir> <demo-pkg> <needs-text>
Copies a confirmed seeded change from /tmp/seed/out/<id> into /verif/seeded/<id>/ (patch.diff, demo/, NOTES.md) and writes
meta.json from the evaluation transcript /tmp/seed/results/<id>.txt (scratch-worktree confirmation + check results)."""
import json, os, re, shutil, sys
sid, dest, pkg, needs = sys.argv[1:5]
src = "/tmp/seed/out/" + sid
dst = "/verif/seeded/" + sid
os.makedirs(dst, exist_ok=True)
shutil.copy(src + "/patch.diff", dst + "/patch.diff")
if os.path.isdir(dst + "/demo"):
    shutil.rmtree(dst + "/demo")
shutil.copytree(src + "/demo", dst + "/demo")
if os.path.exists(src + "/README.md"):
    shutil.copy(src + "/README.md", dst + "/NOTES.md")
res = open("/tmp/seed/results/%s.txt" % sid).read()
m_wo = re.search(r"demo exit WITHOUT change: (\d+)", res)
m_w = re.search(r"demo exit WITH change: (\d+) \((.*?)\)\s*$", res, re.M)
checks = {}
for m in re.finditer(r"^(C\d\d) exit (\d+) in (\d+)s\n((?:    .*\n)*)", res, re.M):
    viol = sorted(set(re.findall(r"violation (C\d\d/[^:]+):", m.group(4))))
    checks[m.group(1)] = {"exit": int(m.group(2)), "seconds": int(m.group(3)), "violation_classes": viol,
                          "caught": int(m.group(2)) == 1 and bool(viol)}
files = sorted(set(re.findall(r"^\+\+\+ b/(\S+)", open(src + "/patch.diff").read(), re.M)))
meta = {
    "id": sid,
    "breaks_property": sid.split("-")[0],
    "files_changed": files,
    "needs_to_manifest": needs,
    "origin": "written by a fresh sub-agent that was given only the property text and a scratch worktree of /repo",
    "confirmed_in_scratch_worktree": {
        "how": "tools/verify_seed.sh: fresh worktree of /repo HEAD; demo without the change; git apply patch.diff; go build ./...; the offline-runnable existing test packages; demo with the change",
        "demo_location": dest, "demo_command": "go test -vet=off -count=1 " + pkg,
        "demo_exit_without_change": int(m_wo.group(1)) if m_wo else None,
        "demo_exit_with_change": int(m_w.group(1)) if m_w else None,
        "demo_failures_with_change": m_w.group(2).strip() if m_w else None,
        "build_with_change": "ok" if "build ok" in res else "FAILED",
        "existing_tests_with_change": "pass (pkg/wal TestWAL_GetToken needs credentials and fails with and without the change; it is not in the 221-test baseline)",
    },
    "checks_run": {"how": "tools/try_seed.py --worktree (quick tier of each named check built against a scratch worktree with the change applied)", "results": checks},
    "caught_by": sorted(c for c, r in checks.items() if r["caught"]),
}
json.dump(meta, open(dst + "/meta.json", "w"), indent=1)
print(sid, "caught_by", meta["caught_by"], "demo", meta["confirmed_in_scratch_worktree"]["demo_exit_without_change"], meta["confirmed_in_scratch_worktree"]["demo_exit_with_change"])

#!/bin/bash
# Regenerates the kept replay file of every known (unrepaired) finding from its directed scenario and checks that
# `check --replay` reproduces it in a fresh process. Run after changing a generator the directed scenarios share.
cd /verif || exit 2
export GOFLAGS=-mod=mod GOPROXY=off GOSUMDB=off GOTOOLCHAIN=local
rc=0
while read prop scen stem; do
  rm -f replays/$stem-*.json
  ./check $prop --tier quick --scenario $scen --runs 24 --no-evidence > /tmp/refresh-known.log 2>&1
  f=$(ls replays/$stem-*.json 2>/dev/null | head -1)
  if [ -z "$f" ]; then echo "NO REPLAY for $prop/$scen"; rc=1; continue; fi
  if ./check $prop --replay "$f" 2>&1 | grep -q "^REPRODUCED"; then
    git rm -q --cached replays/found/$stem-*.json 2>/dev/null; rm -f replays/found/$stem-*.json
    mv "$f" replays/found/; echo "ok $prop/$scen -> replays/found/$(basename $f)"
  else echo "replay of $f does not reproduce"; rc=1; fi
  rm -f replays/$stem-*.json
done <<'L'
C05 known-path-type-switch C05-update-failed-path-type-switch
C12 known-concurrent-commits C12-two-bundles-concurrent-commits
C12 known-crash-after-bundle-retry C12-two-bundles-crash-after-bundle-descriptor_retry
C13 known-dedup-onto-orphan C13-purge-lost-data-dedup-onto-orphaned-blob
C19 known-list-entries-after-add C19-entries-mismatch-ListEntries-after-Add
C07 known-key-order-across-pages C07-order-key-order-across-pages
L
exit $rc
